#!/bin/bash
# Entry point of every check: rebuilds the harness against /repo's current working tree (build tag verif),
# then runs one property at one tier.   ./check.sh <Cnn> <quick|thorough> | setup | replay <path> | replay-case <Cnn> <tier> <seed> <idx>
# exit: 0 held (possibly KNOWN-FINDING lines) / 1 VIOLATION / 2 tree under test or harness does not build / 3 inconclusive
set -u
ROOT="$(cd "$(dirname "$0")" && pwd)"
export VERIF_ROOT="$ROOT"
export GOFLAGS=-mod=mod GOPROXY=off GOSUMDB=off GOTOOLCHAIN=local GONOSUMDB='*' GONOSUMCHECK=1 GOFLAGS=-mod=mod
cd "$ROOT/harness" || exit 2
# The tree under test is /repo. (VERIF_REPO=<dir> points the same machinery at another checkout, e.g. a scratch worktree with a
# seeded change applied, built into its own directory so that it never disturbs the registered checks.)
REPO="${VERIF_REPO:-/repo}"
B=.build
MODFLAG=""
if [ "$REPO" != /repo ]; then
  B=".build-$(echo "$REPO" | md5sum | cut -c1-8)"
  mkdir -p "$B"
  sed "s#=> /repo#=> $REPO#" go.mod > "$B/alt.mod"; cp "$REPO/go.sum" "$B/alt.sum"
  MODFLAG="-modfile=$B/alt.mod"
  export VERIF_EVIDENCE_DIR="$ROOT/harness/$B/evidence"
fi
export VERIF_REPO="$REPO" VERIF_BUILD_DIR="$ROOT/harness/$B"
mkdir -p "$B" "$ROOT/evidence" "$ROOT/replays"

build() {
  [ "$REPO" = /repo ] && cp /repo/go.sum go.sum 2>/dev/null
  # one build at a time: concurrent checks share the build directory
  exec 9>$B/lock
  flock 9
  if ! go build $MODFLAG -tags verif -o $B/vcheck ./cmd/vcheck 2>$B/build.log; then
    echo "BUILD-FAILED (harness or tree under test does not compile with -tags verif):"; tail -30 $B/build.log; exit 2
  fi
  if ! (cd "$REPO" && go build -o "$ROOT/harness/$B/k8snetpolicy" ./cmd/netpolicy) 2>>$B/build.log; then
    echo "BUILD-FAILED (k8snetpolicy binary):"; tail -30 $B/build.log; exit 2
  fi
  if [ "${1:-}" = race ]; then
    if ! go build $MODFLAG -race -tags verif -o $B/vcheck-race ./cmd/vcheck 2>>$B/build.log; then
      echo "BUILD-FAILED (race build):"; tail -30 $B/build.log; exit 2
    fi
  fi
  flock -u 9
}

case "${1:-}" in
  setup)
    build race
    echo "setup ok: $(ls $B)"
    ;;
  replay)
    build
    exec $B/vcheck replay "$2"
    ;;
  replay-case)
    build
    exec $B/vcheck case "$2" "$3" "$4" "$5"
    ;;
  C[0-9][0-9])
    tier="${2:-${VERIF_TIER:-quick}}"
    if [ "$tier" = thorough ]; then build race; else build; fi
    exec $B/vcheck run "$1" "$tier"
    ;;
  *)
    echo "usage: $0 <Cnn> <quick|thorough> | setup | replay <path> | replay-case <Cnn> <tier> <seed> <idx>"; exit 2
    ;;
esac
