#!/bin/bash
# Entry point of every check: rebuilds the harness against /repo's current working tree (build tag verif),
# then runs one property at one tier.   ./check.sh <Cnn> <quick|thorough> | setup | replay <path> | replay-case <Cnn> <tier> <seed> <idx>
# exit: 0 held (possibly KNOWN-FINDING lines) / 1 VIOLATION / 2 tree under test or harness does not build / 3 inconclusive
set -u
ROOT="$(cd "$(dirname "$0")" && pwd)"
export VERIF_ROOT="$ROOT"
export GOFLAGS=-mod=mod GOPROXY=off GOSUMDB=off GOTOOLCHAIN=local GONOSUMDB='*' GONOSUMCHECK=1 GOFLAGS=-mod=mod
cd "$ROOT/harness" || exit 2
mkdir -p .build "$ROOT/evidence" "$ROOT/replays"

build() {
  cp /repo/go.sum go.sum 2>/dev/null
  # one build at a time: concurrent checks share .build
  exec 9>.build/lock
  flock 9
  if ! go build -tags verif -o .build/vcheck ./cmd/vcheck 2>.build/build.log; then
    echo "BUILD-FAILED (harness or tree under test does not compile with -tags verif):"; tail -30 .build/build.log; exit 2
  fi
  if ! (cd /repo && go build -o "$ROOT/harness/.build/k8snetpolicy" ./cmd/netpolicy) 2>>.build/build.log; then
    echo "BUILD-FAILED (k8snetpolicy binary):"; tail -30 .build/build.log; exit 2
  fi
  if [ "${1:-}" = race ]; then
    if ! go build -race -tags verif -o .build/vcheck-race ./cmd/vcheck 2>>.build/build.log; then
      echo "BUILD-FAILED (race build):"; tail -30 .build/build.log; exit 2
    fi
  fi
  flock -u 9
}

case "${1:-}" in
  setup)
    build race
    echo "setup ok: $(ls .build)"
    ;;
  replay)
    build
    exec .build/vcheck replay "$2"
    ;;
  replay-case)
    build
    exec .build/vcheck case "$2" "$3" "$4" "$5"
    ;;
  C[0-9][0-9])
    tier="${2:-${VERIF_TIER:-quick}}"
    if [ "$tier" = thorough ]; then build race; else build; fi
    exec .build/vcheck run "$1" "$tier"
    ;;
  *)
    echo "usage: $0 <Cnn> <quick|thorough> | setup | replay <path> | replay-case <Cnn> <tier> <seed> <idx>"; exit 2
    ;;
esac
