// vcheck: driver and worker of the runtime-monitoring checks.
package main

import (
	"encoding/json"
	"fmt"
	"os"
	"path/filepath"
	"runtime"
	"strconv"

	_ "verif/harness/internal/checks"
	"verif/harness/internal/run"
)

func envInt(name string, def int64) int64 {
	if v := os.Getenv(name); v != "" {
		if n, err := strconv.ParseInt(v, 10, 64); err == nil {
			return n
		}
	}
	return def
}

func main() {
	if len(os.Args) < 2 {
		fmt.Fprintln(os.Stderr, "usage: vcheck run <id> <tier> | worker … | replay <path> | case <id> <tier> <seed> <idx>")
		os.Exit(2)
	}
	root := os.Getenv("VERIF_ROOT")
	if root == "" {
		root = "/verif"
	}
	bdir := os.Getenv("VERIF_BUILD_DIR")
	if bdir == "" {
		bdir = filepath.Join(root, "harness", ".build")
	}
	bin := filepath.Join(bdir, "k8snetpolicy")
	self, _ := os.Executable()
	switch os.Args[1] {
	case "run":
		ck := run.Registry[os.Args[2]]
		if ck == nil {
			fmt.Fprintln(os.Stderr, "unknown check", os.Args[2])
			os.Exit(2)
		}
		tier := os.Args[3]
		seed := envInt("VERIF_SEED", 1)
		workers := int(envInt("VERIF_WORKERS", int64(runtime.NumCPU())))
		os.Exit(run.Drive(ck, tier, seed, self, bin, root, workers, filepath.Join(bdir, "vcheck-race")))
	case "worker":
		a := os.Args[2:]
		ck := run.Registry[a[0]]
		seed, _ := strconv.ParseInt(a[2], 10, 64)
		from, _ := strconv.Atoi(a[3])
		stride, _ := strconv.Atoi(a[4])
		n, _ := strconv.Atoi(a[5])
		os.Exit(run.Worker(ck, a[1], seed, from, stride, n, a[6], a[7], a[8], a[9], os.Getenv("VERIF_RACE") == "1"))
	case "replay", "case":
		var id, tier string
		var seed int64
		var idx int
		if os.Args[1] == "replay" {
			b, err := os.ReadFile(filepath.Join(os.Args[2], "case.json"))
			if err != nil {
				fmt.Fprintln(os.Stderr, err)
				os.Exit(2)
			}
			var cj struct {
				Property string `json:"property"`
				Tier     string `json:"tier"`
				Seed     int64  `json:"seed"`
				Index    int    `json:"index"`
			}
			_ = json.Unmarshal(b, &cj)
			id, tier, seed, idx = cj.Property, cj.Tier, cj.Seed, cj.Index
		} else {
			id, tier = os.Args[2], os.Args[3]
			seed, _ = strconv.ParseInt(os.Args[4], 10, 64)
			idx, _ = strconv.Atoi(os.Args[5])
		}
		ck := run.Registry[id]
		if ck == nil {
			fmt.Fprintln(os.Stderr, "unknown check", id)
			os.Exit(2)
		}
		tmp, _ := os.MkdirTemp("", "vreplay-")
		_ = os.Chdir(tmp)
		known, _ := run.LoadKnown(root)
		res := run.RunCase(ck, tier, seed, idx, bin, root, tmp, known, os.Getenv("VERIF_SAVE") == "1", false)
		b, _ := json.MarshalIndent(res, "", " ")
		fmt.Println(string(b))
		code := 0
		for _, v := range res.Violations {
			if k := run.MatchKnown(known, id, v.Sig); k != nil {
				fmt.Printf("KNOWN-FINDING: property=%s finding=%s %s\n", id, k.Finding, k.Text)
			} else {
				fmt.Printf("VIOLATION property=%s replay=%s\n", id, os.Args[2])
				code = 1
			}
		}
		_ = os.Chdir(root)
		_ = os.RemoveAll(tmp)
		os.Exit(code)
	}
	fmt.Fprintln(os.Stderr, "unknown command", os.Args[1])
	os.Exit(2)
}
