package checks

import (
	"verif/harness/internal/observe"
	"verif/harness/internal/run"
	"verif/harness/internal/world"
)

func init() {
	run.Register(&run.Check{
		ID:    "C01",
		Level: "exploration",
		Rule: "cases: NetworkPolicy-only worlds drawn from a tiny vocabulary by a (seed,index)-determined PRNG, written as YAML in a random file layout and analysed by ConnlistFromDirPath; " +
			"the report is compared with an independent reference model on all ordered workload pairs x 3x65535 points (bitset equality) and on every address atom induced by the CIDR/except boundaries plus the end points of every reported range; " +
			"the tail of the case list holds fixture-derived worlds: every manifest directory shipped with the repository that our own decoder can express as a world without NetworkPolicy-foreign constructs, analysed as shipped, re-emitted, and after 1..k single-step edits, judged by the same model; " +
			"non-trivial = some workload is governed by a policy and the expected relation is neither empty nor all-'All Connections'; distinct = distinct world content hash",
		Assumptions: []string{
			"reference model (own selector matcher, uint32 CIDR arithmetic, 65536-bit sets per protocol) reads the property statement correctly",
			"inputs are API-admissible (ports 1..65535, endPort>=port, excepts inside their CIDR, valid selector operators)",
			"IPv4 only; the model is constant on an address atom by construction, so one representative per atom is exhaustive over addresses given C05's partition invariant",
			"a fatal error is accepted iff the model finds a named port that would have to be resolved on an address (documented deviation)",
		},
		NumCases:          func(tier string, _ int64) int { return tierN(tier, 1500, 60000) + nFixModel(tier) },
		Run:               runC01,
		MinNonTrivial:     300,
		MinEffectiveShare: 0.5,
		RequiredEvents:    map[string]int64{"pairs_compared": 10000, "feature_endPort": 20, "feature_namedPort": 20, "feature_except": 20, "feature_protoOnlyPort": 20, "feature_missingNsObject": 20, "feature_NotIn": 10, "feature_DoesNotExist": 10, "feature_policyTypesDefaulted": 20, "fixture_cases": 50},
	})
}

func runC01(c *run.Ctx) {
	r := c.Res
	if base := tierN(c.Tier, 1500, 60000); c.Idx >= base { // tail of the list: fixture-derived worlds
		runFixtureModel(c, c.Idx-base, false, "c01", false)
		return
	}
	g := c.R("world")
	cfg := world.DefaultCfg()
	cfg.KindTwins, cfg.SharedNames = 0.12, 0.1
	if g.P(0.3) {
		cfg.Kinds = world.AllWorkloadKinds[:7]
	}
	w := world.GenNPWorld(g, cfg)
	if c.Idx%7 == 3 {
		world.AddDefaultNamespaceWorkloads(g, w, cfg)
	}
	if g.P(0.15) {
		world.AddSharedEgressPolicy(g, w)
	}
	if c.Idx%11 == 5 {
		world.AddEverybodyPlusHoledRangeRule(g, w)
	}
	world.AddTwinNamedPortPolicy(g, w) // only acts on worlds that hold true twins
	r.Hash = w.Hash()
	r.Feat(w.Features...)
	for _, f := range w.Features {
		r.Ev("feature_"+f, 1)
	}
	dir := c.Dir("input")
	if err := w.Write(dir, c.R("layout")); err != nil {
		r.Discarded = "emit: " + err.Error()
		return
	}
	res := observe.List(dir, observe.ListOpts{})
	if res.Panic != "" {
		r.Violate("c01.total", "c01.total:any:panic", "a result or an error", "panic: "+res.Panic, "")
		return
	}
	if res.HasErr {
		if modelNamedOnIP(w) {
			r.Ev("named_port_on_address_error_accepted", 1)
			r.Feat("namedOnIPError")
			return
		}
		r.Violate("c01.model", "c01.model:toolerror:error", "a report (model evaluates the world without resolving a named port on an address)", "error: "+res.Err, "")
		return
	}
	st := CompareListToModel(w, res, r, "c01.model")
	r.Effective = st.Governed
	r.NonTrivial = st.Governed && !st.AllEmpty && !st.AllFull
	if c.Idx%97 == 0 || len(r.Violations) > 0 {
		r.SetSample(sampleOf(w, res, 12))
	}
}
