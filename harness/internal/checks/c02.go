package checks

import (
	"fmt"
	"sort"

	"verif/harness/internal/observe"
	"verif/harness/internal/refmodel"
	"verif/harness/internal/rng"
	"verif/harness/internal/run"
	"verif/harness/internal/world"
)

func init() {
	run.Register(&run.Check{
		ID:    "C02",
		Level: "exploration",
		Rule: "cases: two streams - (a) precedence scenarios built around one workload pair (1-3 ANPs whose subject and peers select the pair, all action mixes, overlapping port shapes, x {no NP, NP governing, NP not governing} x {no BANP, BANP Allow/Deny}) and (b) random ANP/BANP/NP worlds; " +
			"each world is analysed in three document orders of the admin policies (ascending priority, descending, shuffled + random file layout); the first report is compared with the reference model on all pairs x 3x65535 points and all address atoms, the other two must equal the first; CheckIfAllowed (engine built from the parsed objects, ascending and shuffled order) is compared with the model for every workload pair at the boundary ports of all rules x 3 protocols; " +
			"the tail of the case list holds fixture-derived worlds: the manifest directories shipped with the repository that hold admin policies and that our own decoder can express as a world, analysed as shipped, re-emitted, and after 1..k single-step edits, judged by the same model on the list and the eval route; " +
			"non-trivial = for some workload pair at least two of the layers ANP / NetworkPolicy / BANP decided some point (model trace); effective = an admin policy decided some point of some pair",
		Assumptions: []string{
			"reference model implements the scan order of the property statement (ascending priority, rules in order, first match decides; Pass/no match falls to NetworkPolicy if it governs, else first matching BANP rule, else allow)",
			"ANP named ports are resolved on the destination pod with the protocol of the container port",
			"API-admissible inputs: distinct priorities 0..1000, distinct names, exactly one of namespaces/pods per subject or peer",
		},
		NumCases:          func(tier string, _ int64) int { return tierN(tier, 1500, 60000) + nFixModel(tier) },
		Run:               runC02,
		MinNonTrivial:     200,
		MinEffectiveShare: 0.3,
		RequiredEvents: map[string]int64{"pairs_compared": 10000, "worlds_two_anps_on_one_pair": 50, "inputs_anps_out_of_priority_order": 100,
			"eval_queries": 100000, "layer_anp": 100, "layer_np": 100, "layer_banp": 50, "feature_anpPass": 100, "feature_anpDeny": 100, "feature_anpAllow": 100, "fixture_cases": 20},
	})
}

func anpOrderVariant(w *world.World, mode int) *world.World {
	v := w.Clone()
	switch mode {
	case 0:
		sort.SliceStable(v.ANPs, func(i, j int) bool { return v.ANPs[i].Priority < v.ANPs[j].Priority })
	case 1:
		sort.SliceStable(v.ANPs, func(i, j int) bool { return v.ANPs[i].Priority > v.ANPs[j].Priority })
	}
	return v
}

func relationsEqual(a, b *observe.ListResult) (bool, string) {
	ra, rb := a.Relation(), b.Relation()
	for k, ca := range ra {
		cb, ok := rb[k]
		if !ok || !ca.Equal(cb) {
			got := "absent"
			if ok {
				got = cb.String()
			}
			return false, k[0] + " -> " + k[1] + ": " + ca.String() + " vs " + got
		}
	}
	for k, cb := range rb {
		if _, ok := ra[k]; !ok {
			return false, k[0] + " -> " + k[1] + ": absent vs " + cb.String()
		}
	}
	return true, ""
}

func runC02(c *run.Ctx) {
	r := c.Res
	if base := tierN(c.Tier, 1500, 60000); c.Idx >= base { // tail of the list: fixture-derived worlds with admin policies
		runFixtureModel(c, c.Idx-base, true, "c02", true)
		return
	}
	g := c.R("world")
	cfg := world.DefaultCfg()
	cfg.NamedEgressIP = 0
	cfg.MaxWorkloads = 5
	var w *world.World
	if c.Idx%3 != 2 {
		w = world.GenPrecedenceWorld(g, cfg)
	} else {
		w = world.GenBase(g, cfg)
		cfg.MinNetPols, cfg.MaxNetPols = 0, 3
		world.GenNetPols(g, w, cfg)
		world.GenAdmin(g, w, cfg, 1, 5, 0.5)
		w.AddFeature("random")
	}
	r.Hash = w.Hash()
	r.Feat(w.Features...)
	for _, f := range w.Features {
		r.Ev("feature_"+f, 1)
	}
	// model trace per pair: which layers decided
	m := &refmodel.Model{W: w}
	twoLayers, anyANP := false, false
	for i := range w.Workloads {
		for j := range w.Workloads {
			if i == j {
				continue
			}
			var fl refmodel.Flags
			m.Allowed(refmodel.WorkloadPeer(w, &w.Workloads[i]), refmodel.WorkloadPeer(w, &w.Workloads[j]), &fl)
			n := 0
			for _, b := range []bool{fl.ByANP, fl.ByNP, fl.ByBANP} {
				if b {
					n++
				}
			}
			if n >= 2 {
				twoLayers = true
			}
			if fl.ByANP {
				anyANP = true
				r.Ev("layer_anp", 1)
			}
			if fl.ByNP {
				r.Ev("layer_np", 1)
			}
			if fl.ByBANP {
				r.Ev("layer_banp", 1)
			}
			if fl.ByDefault {
				r.Ev("layer_default", 1)
			}
		}
	}
	// how many ANPs select one pair
	for i := range w.Workloads {
		pi := refmodel.WorkloadPeer(w, &w.Workloads[i])
		n := 0
		for k := range w.ANPs {
			if refmodel.SubjectMatch(&w.ANPs[k].Subject, pi) {
				n++
			}
		}
		if n >= 2 {
			r.Ev("worlds_two_anps_on_one_pair", 1)
			break
		}
	}
	var first *observe.ListResult
	for mode := 0; mode < 3; mode++ {
		v := anpOrderVariant(w, mode)
		for i := 1; i < len(v.ANPs); i++ {
			if v.ANPs[i].Priority < v.ANPs[i-1].Priority {
				r.Ev("inputs_anps_out_of_priority_order", 1)
				break
			}
		}
		dir := c.Dir([]string{"asc", "desc", "shuffled"}[mode])
		var err error
		if mode == 2 {
			err = v.Write(dir, c.R("layout"))
		} else {
			err = v.Write(dir, nil)
		}
		if err != nil {
			r.Discarded = "emit: " + err.Error()
			return
		}
		res := observe.List(dir, observe.ListOpts{})
		r.Ev("list_runs", 1)
		if res.Panic != "" {
			r.Violate("c02.total", "c02.total:any:panic", "a result or an error", "panic: "+res.Panic, "")
			return
		}
		if res.HasErr {
			r.Violate("c02.model", "c02.model:toolerror:error", "a report", "error: "+res.Err, "")
			return
		}
		if mode == 0 {
			first = res
			CompareListToModel(w, res, r, "c02.model")
			if c.Idx%97 == 0 || len(r.Violations) > 0 {
				r.SetSample(sampleOf(w, res, 12))
			}
			// the eval route of the property (observe_at: PolicyEngine.CheckIfAllowed): answers vs the MODEL at rule boundaries
			evalAgainstModel(c, w, dir, "c02.eval")
		} else if ok, d := relationsEqual(first, res); !ok {
			r.Violate("c02.order", "c02.order:docorder:differs", "same relation for every document order of the policies", d,
				"order variant "+[]string{"asc", "desc", "shuffled"}[mode])
		}
	}
	if len(r.Violations) == 0 { // and once more on the shuffled document order
		evalAgainstModel(c, w, c.Dir("shuffled"), "c02.eval")
	}
	r.Effective = anyANP
	r.NonTrivial = twoLayers
}

// evalAgainstModel builds an engine from the parsed objects of a directory and compares CheckIfAllowed with the reference model
// for every ordered pair of workloads (first pod of each) at the boundary ports of all rules.
func evalAgainstModel(c *run.Ctx, w *world.World, dir, monitor string) {
	r := c.Res
	objs, pp := observe.ParseDir(dir)
	if pp != "" {
		r.Violate("c02.total", "c02.total:any:panic", "objects", "panic: "+pp, "parse")
		return
	}
	eng, cr := observe.NewEngineWithObjects(objs)
	if cr.Panic != "" || cr.HasErr {
		r.Violate(monitor, monitor+":engine:error", "an engine", cr.Panic+cr.Err, "")
		return
	}
	engines := []*observe.Engine{eng}
	// the same objects once more through InsertObject, one by one in document order (admin policies arrive in whatever order the
	// documents have - ascending, descending or shuffled priorities): precedence must not depend on the order of arrival
	if ins := observe.NewEngine(); true {
		ok := true
		for i := range objs {
			if o := observe.RuntimeObject(&objs[i]); o != nil {
				if res := ins.Insert(o); res.Panic != "" || res.HasErr {
					ok = false
					r.Ev("insert_route_not_built", 1)
					break
				}
			}
		}
		if ok {
			engines = append(engines, ins)
			r.Ev("insert_route_engines", 1)
		}
	}
	g := c.R("evalports")
	ports := boundaryPorts(g, w)
	if len(ports) > 14 {
		rng.Shuffle(g, ports)
		ports = ports[:14]
	}
	m := &refmodel.Model{W: w}
	nv := 0
	for i := range w.Workloads {
		for j := range w.Workloads {
			if i == j {
				continue
			}
			var fl refmodel.Flags
			mc := m.Allowed(refmodel.WorkloadPeer(w, &w.Workloads[i]), refmodel.WorkloadPeer(w, &w.Workloads[j]), &fl)
			s, d := podNamesOf(&w.Workloads[i])[0], podNamesOf(&w.Workloads[j])[0]
			for _, pr := range []string{"TCP", "UDP", "SCTP"} {
				for _, p := range ports {
					for ei, eng := range engines {
						res := eng.Check(s, d, pr, fmt.Sprint(p))
						r.Ev("eval_queries", 1)
						if res.Panic != "" || res.HasErr || res.Allowed != mc.Has(pr, p) {
							nv++
							if nv <= 2 {
								r.Violate(monitor, monitor+":pair:disagrees-with-model", fmt.Sprintf("%v (model)", mc.Has(pr, p)), fmt.Sprintf("%v %s%s", res.Allowed, res.Err, firstLines(res.Panic, 3)),
									fmt.Sprintf("%s => %s %s/%d (engine route %d: 0 = built from the objects, 1 = filled by InsertObject in document order)", s, d, pr, p, ei))
							}
						}
					}
				}
			}
		}
	}
}
