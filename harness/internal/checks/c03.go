package checks

import (
	"fmt"
	"sort"
	"strings"

	"verif/harness/internal/observe"
	"verif/harness/internal/refmodel"
	"verif/harness/internal/rng"
	"verif/harness/internal/run"
	"verif/harness/internal/world"
)

func init() {
	run.Register(&run.Check{
		ID:    "C03",
		Level: "exploration",
		Rule: "cases: NetworkPolicy and ANP/BANP worlds whose workloads are bare Pods (addressable by name), Deployments or owned Pods; the list report of the same directory is the reference; CheckIfAllowed is queried for every ordered pod pair, pod->address and address->pod at every boundary of every rule (p-1,p,p+1,endPort+-1, container ports, 1, 65535, random ports) x TCP/UDP/SCTP (+ lower-case spelling), and every pod to itself, through three routes: engine from NewPolicyEngineWithObjects, engine filled by InsertObject in input document order (what the CLI does), and the built binary `k8snetpolicy eval` on a slice; " +
			"non-trivial = the list report has a partial connection for some queried pair and both true and false answers were observed; distinct = world hash",
		Assumptions:       []string{"list is the reference (C01/C02 check list itself); the reference model is only a tie-breaker in the report text", "both implementations are piece-wise constant between rule boundaries, so boundary+-1 sampling visits every piece", "numeric ports only (1..65535)"},
		NumCases:          func(tier string, _ int64) int { return tierN(tier, 800, 40000) },
		Run:               runC03,
		NeedsBinary:       true,
		MinNonTrivial:     150,
		MinEffectiveShare: 0.5,
		RequiredEvents: map[string]int64{"queries": 200000, "queries_route_objects": 100000, "queries_route_insert": 30000, "binary_queries": 100, "answers_true": 10000, "answers_false": 10000,
			"ip_queries": 10000, "self_queries": 500, "worlds_with_admin_policies": 100, "worlds_anps_out_of_priority_order": 30, "worlds_missing_namespace_object": 100, "feature_protoOnlyPort": 50},
	})
}

func podNamesOf(wl *world.Workload) []string {
	switch wl.Kind {
	case world.KPod:
		return []string{wl.Ns + "/" + wl.Name}
	case world.KOwnedPods:
		n := wl.NPods
		if n <= 0 {
			n = 2
		}
		out := []string{}
		for i := 0; i < n; i++ {
			out = append(out, fmt.Sprintf("%s/%s-x%d", wl.Ns, wl.Name, i))
		}
		return out
	}
	out := []string{wl.Ns + "/" + wl.Name + "-1"}
	if wl.Replicas != nil && *wl.Replicas > 1 {
		out = append(out, wl.Ns+"/"+wl.Name+"-2")
	}
	return out
}

func boundaryPorts(g *rng.R, w *world.World) []int {
	set := map[int]bool{1: true, 65535: true, 2: true, 65534: true}
	add := func(p int) {
		for _, x := range []int{p - 1, p, p + 1} {
			if x >= 1 && x <= 65535 {
				set[x] = true
			}
		}
	}
	for i := range w.NetPols {
		for _, rules := range [][]world.NPRule{w.NetPols[i].Ingress, w.NetPols[i].Egress} {
			for _, r := range rules {
				for _, p := range r.Ports {
					if p.Port != 0 {
						add(p.Port)
					}
					if p.EndPort != 0 {
						add(p.EndPort)
					}
				}
			}
		}
	}
	anpr := func(rules []world.ANPRule) {
		for _, r := range rules {
			for _, p := range r.Ports {
				if p.Port != 0 {
					add(p.Port)
				}
				if p.End != 0 {
					add(p.End)
				}
			}
		}
	}
	for i := range w.ANPs {
		anpr(w.ANPs[i].Ingress)
		anpr(w.ANPs[i].Egress)
	}
	if w.BANP != nil {
		anpr(w.BANP.Ingress)
		anpr(w.BANP.Egress)
	}
	for _, wl := range w.Workloads {
		for _, cp := range wl.Ports {
			add(cp.Num)
		}
	}
	for k := 0; k < 3; k++ {
		set[g.Range(1, 65535)] = true
	}
	out := make([]int, 0, len(set))
	for p := range set {
		out = append(out, p)
	}
	sort.Ints(out)
	return out
}

type c03Query struct {
	src, dst        string // eval arguments
	lsrc, ldst      string // list peer strings ("" = address: look the range up)
	srcIP, dstIP    uint32
	srcIsIP, dstIP2 bool
	self            bool
}

func runC03(c *run.Ctx) {
	r := c.Res
	g := c.R("world")
	cfg := world.DefaultCfg()
	cfg.NamedEgressIP = 0
	cfg.MaxWorkloads = 5
	podOnly := c.Idx%2 == 0
	if podOnly {
		cfg.Kinds = []string{world.KPod}
	} else {
		cfg.Kinds = []string{world.KPod, world.KDeployment, world.KOwnedPods}
	}
	var w *world.World
	switch c.Idx % 3 {
	case 0:
		w = world.GenNPWorld(g, cfg)
	case 1:
		w = world.GenPrecedenceWorld(g, cfg)
	default:
		w = world.GenBase(g, cfg)
		cfg.MinNetPols, cfg.MaxNetPols = 0, 3
		world.GenNetPols(g, w, cfg)
		world.GenAdmin(g, w, cfg, 1, 4, 0.5)
	}
	r.Hash = w.Hash()
	r.Feat(w.Features...)
	for _, f := range w.Features {
		r.Ev("feature_"+f, 1)
	}
	if len(w.ANPs) > 0 || w.BANP != nil {
		r.Ev("worlds_with_admin_policies", 1)
	}
	for i := 1; i < len(w.ANPs); i++ {
		if w.ANPs[i].Priority < w.ANPs[i-1].Priority {
			r.Ev("worlds_anps_out_of_priority_order", 1)
			break
		}
	}
	for _, ns := range w.Namespaces {
		if !ns.HasObj {
			r.Ev("worlds_missing_namespace_object", 1)
			break
		}
	}
	dir := c.Dir("input")
	// document order is kept (canonical layout, shuffled documents) so that the insert route sees the input order
	docs := w.Docs()
	rng.Shuffle(g, docs)
	if err := world.WriteDocs(dir, docs, world.LayoutCanonial, nil); err != nil {
		r.Discarded = err.Error()
		return
	}
	lst := observe.List(dir, observe.ListOpts{})
	if lst.Panic != "" {
		r.Violate("c03.total", "c03.total:any:panic", "a result or an error", "panic: "+lst.Panic, "")
		return
	}
	if lst.HasErr {
		r.Ev("list_errors", 1)
		return
	}
	rel := lst.Relation()
	ranges := lst.IPRanges()
	empty := refmodel.NewConn()
	lookup := func(s, d string) *refmodel.Conn {
		if x, ok := rel[[2]string{s, d}]; ok {
			return x
		}
		return empty
	}
	// queries
	type pod struct {
		name string
		wl   *world.Workload
	}
	pods := []pod{}
	for i := range w.Workloads {
		for _, pn := range podNamesOf(&w.Workloads[i]) {
			pods = append(pods, pod{pn, &w.Workloads[i]})
		}
	}
	ports := boundaryPorts(g, w)
	addrs := []uint32{}
	for _, a := range refmodel.Atoms(w) {
		addrs = append(addrs, a[0])
		if a[1] != a[0] {
			addrs = append(addrs, a[1])
		}
	}
	if len(addrs) > 8 {
		rng.Shuffle(g, addrs)
		addrs = addrs[:8]
	}
	if c.Idx%5 == 0 { // the node addresses of the pods (status.hostIP; 127.0.0.1 for pods generated from workloads)
		for _, ip := range []string{"192.168.49.2", "127.0.0.1"} {
			if a, ok := world.ParseIP(ip); ok {
				addrs = append(addrs, a)
			}
		}
		r.Ev("worlds_with_node_address_queries", 1)
	}
	m := &refmodel.Model{W: w}
	objs, pp := observe.ParseDir(dir)
	if pp != "" {
		r.Violate("c03.total", "c03.total:any:panic", "a result or an error", "panic: "+pp, "parse")
		return
	}
	sawTrue, sawFalse, partial := false, false, false
	nviol := 0
	runRoute := func(route string, eng *observe.Engine) {
		ask := func(src, dst string, want bool, what string, modelSays func() bool, proto string, port int) bool {
			res := eng.Check(src, dst, proto, fmt.Sprint(port))
			r.Ev("queries", 1)
			r.Ev("queries_route_"+route, 1)
			if res.Panic != "" {
				nviol++
				if nviol <= 3 {
					r.Violate("c03.total", "c03.total:any:panic", "an answer", "panic: "+res.Panic, what)
				}
				return false
			}
			if res.HasErr {
				nviol++
				if nviol <= 3 {
					r.Violate("c03.agree", "c03.agree:"+route+":eval-error", "an answer (list analysed the same resources)", "error: "+res.Err, what)
				}
				return false
			}
			if res.Allowed {
				sawTrue = true
				r.Ev("answers_true", 1)
			} else {
				sawFalse = true
				r.Ev("answers_false", 1)
			}
			if res.Allowed != want {
				nviol++
				if nviol <= 3 {
					side := "eval wrong by the model"
					if modelSays() == res.Allowed {
						side = "list wrong by the model"
					}
					shape := "eval-true-list-false"
					if want {
						shape = "eval-false-list-true"
					}
					r.Violate("c03.agree", "c03.agree:"+route+":"+shape, fmt.Sprintf("%v (list)", want), fmt.Sprintf("%v (eval)", res.Allowed),
						fmt.Sprintf("%s %s/%d via %s; %s", what, proto, port, route, side))
				}
				return false
			}
			return true
		}
		for _, s := range pods {
			// a pod to itself is always allowed
			r.Ev("self_queries", 1)
			ask(s.name, s.name, true, s.name+" => itself", func() bool { return true }, "TCP", ports[g.Intn(len(ports))])
			for _, d := range pods {
				if s.wl == d.wl {
					continue
				}
				lc := lookup(s.wl.PeerString(), d.wl.PeerString())
				if !lc.IsEmpty() && !lc.IsFull() {
					partial = true
				}
				var mc *refmodel.Conn
				for _, pr := range []string{"TCP", "UDP", "SCTP"} {
					for _, p := range ports {
						proto := pr
						if p%7 == 0 {
							proto = strings.ToLower(pr)
						}
						ask(s.name, d.name, lc.Has(pr, p), s.name+" => "+d.name, func() bool {
							if mc == nil {
								var fl refmodel.Flags
								mc = m.Allowed(refmodel.WorkloadPeer(w, s.wl), refmodel.WorkloadPeer(w, d.wl), &fl)
							}
							return mc.Has(pr, p)
						}, proto, p)
					}
				}
			}
			for _, a := range addrs {
				rg := observe.FindRange(ranges, a)
				ip := world.IPString(a)
				out, in := lookup(s.wl.PeerString(), rg), lookup(rg, s.wl.PeerString())
				for _, pr := range []string{"TCP", "UDP"} {
					for _, p := range ports {
						r.Ev("ip_queries", 2)
						ask(s.name, ip, out.Has(pr, p), s.name+" => "+ip, func() bool {
							var fl refmodel.Flags
							return m.Allowed(refmodel.WorkloadPeer(w, s.wl), refmodel.IPPeer(a), &fl).Has(pr, p)
						}, pr, p)
						ask(ip, s.name, in.Has(pr, p), ip+" => "+s.name, func() bool {
							var fl refmodel.Flags
							return m.Allowed(refmodel.IPPeer(a), refmodel.WorkloadPeer(w, s.wl), &fl).Has(pr, p)
						}, pr, p)
					}
				}
			}
		}
	}
	// route (a): engine built from the parsed objects
	engA, cr := observe.NewEngineWithObjects(objs)
	if cr.Panic != "" {
		r.Violate("c03.total", "c03.total:any:panic", "an engine or an error", "panic: "+cr.Panic, "NewPolicyEngineWithObjects")
	} else if cr.HasErr {
		r.Violate("c03.agree", "c03.agree:objects:engine-error", "an engine (list analysed the same resources)", "error: "+cr.Err, "NewPolicyEngineWithObjects")
	} else {
		runRoute("objects", engA)
	}
	// route (b): InsertObject in input document order, the kinds the CLI inserts (pod-only worlds)
	if podOnly {
		engB := observe.NewEngine()
		ok := true
		for i := range objs {
			o := observe.RuntimeObject(&objs[i])
			if o == nil {
				continue
			}
			if res := engB.Insert(o); res.Panic != "" || res.HasErr {
				ok = false
				r.Violate("c03.agree", "c03.agree:insert:insert-error", "InsertObject accepts what list analysed", "error: "+res.Err+res.Panic, objs[i].Kind)
				break
			}
		}
		if ok {
			runRoute("insert", engB)
		}
	}
	// route (c): the binary, a few queries on pod-only worlds
	if podOnly && c.Idx%4 == 0 && len(pods) >= 2 {
		nq := 6
		sharedName := false
		for _, f := range w.Features {
			if f == "policyNameSharedAcrossNamespaces" {
				sharedName, nq = true, 14
			}
		}
		for k := 0; k < nq; k++ {
			s, d := pods[g.Intn(len(pods))], pods[g.Intn(len(pods))]
			if sharedName && k >= 6 { // pod-to-pod across namespaces, where both same-named policies matter
				for try := 0; try < 8 && s.wl.Ns == d.wl.Ns; try++ {
					d = pods[g.Intn(len(pods))]
				}
			}
			if s.wl == d.wl {
				continue
			}
			p := ports[g.Intn(len(ports))]
			pr := rng.Pick(g, []string{"tcp", "udp", "sctp"})
			sn := strings.SplitN(s.name, "/", 2)
			dn := strings.SplitN(d.name, "/", 2)
			args := []string{"eval", "--dirpath", dir, "-q", "-p", fmt.Sprint(p), "--protocol", pr}
			if len(lst.Errs) == 0 && g.P(0.3) { // stop-on-first-error changes nothing when the input has no error at all
				args = append(args, "--fail")
				r.Ev("binary_queries_with_fail_flag", 1)
			}
			what := ""
			var want bool
			mode := k % 3
			if sharedName && k >= 6 {
				mode = 0
			}
			var a uint32
			if len(addrs) > 0 {
				a = addrs[g.Intn(len(addrs))]
			}
			switch {
			case mode == 1 && len(addrs) > 0: // address -> pod
				args = append(args, "--source-ip", world.IPString(a), "-d", dn[1], "--destination-namespace", dn[0])
				want = lookup(observe.FindRange(ranges, a), d.wl.PeerString()).Has(pr, p)
				what = world.IPString(a) + " => " + d.name
			case mode == 2 && len(addrs) > 0: // pod -> address
				args = append(args, "-s", sn[1], "-n", sn[0], "--destination-ip", world.IPString(a))
				want = lookup(s.wl.PeerString(), observe.FindRange(ranges, a)).Has(pr, p)
				what = s.name + " => " + world.IPString(a)
			default:
				args = append(args, "-s", sn[1], "-n", sn[0], "-d", dn[1], "--destination-namespace", dn[0])
				want = lookup(s.wl.PeerString(), d.wl.PeerString()).Has(pr, p)
				what = s.name + " => " + d.name
			}
			cli := observe.RunCLI(c.Bin, c.Scratch(), args...)
			r.Ev("binary_queries", 1)
			what += fmt.Sprintf(" %s/%d", pr, p)
			if strings.Contains(cli.Stderr, "panic:") {
				r.Violate("c03.total", "c03.total:any:binary-panic", "an answer", cli.Stderr, what)
				continue
			}
			line := strings.TrimSpace(cli.Stdout)
			switch {
			case cli.Exit != 0:
				nviol++
				r.Violate("c03.agree", "c03.agree:binary:eval-error", "an answer (list analysed the same resources)", fmt.Sprintf("exit %d: %s", cli.Exit, lastLine(cli.Stderr)), what+" ; k8snetpolicy "+strings.Join(args, " "))
			case strings.HasSuffix(line, ": true") != want || !(strings.HasSuffix(line, ": true") || strings.HasSuffix(line, ": false")):
				nviol++
				r.Violate("c03.agree", "c03.agree:binary:differs", fmt.Sprintf("%v (list)", want), line, what)
			}
		}
	}
	r.Effective = sawTrue || sawFalse
	r.NonTrivial = partial && sawTrue && sawFalse
	if c.Idx%113 == 0 || len(r.Violations) > 0 {
		s := sampleOf(w, lst, 8)
		s["ports_queried"] = ports
		s["pods"] = len(pods)
		r.SetSample(s)
	}
}

func lastLine(s string) string {
	ls := strings.Split(strings.TrimSpace(s), "\n")
	return ls[len(ls)-1]
}
