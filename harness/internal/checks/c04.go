package checks

import (
	"fmt"
	"path/filepath"
	"sort"

	"verif/harness/internal/observe"
	"verif/harness/internal/refmodel"
	"verif/harness/internal/rng"
	"verif/harness/internal/run"
	"verif/harness/internal/world"
)

func init() {
	run.Register(&run.Check{
		ID:    "C04",
		Level: "exploration",
		Rule: "cases: ordered pairs (A,B) of manifest sets, B = A after 1-3 edits (rule/port/CIDR/except edits that move the ipBlock partition, added/removed/renamed/re-kinded workloads, added/removed policies, relabelling, ANP edits) or an unrelated world; the tail of the list pairs the manifest directories shipped with the repository (each with its alphabetical neighbour - very often a variant of it -, in the thorough tier also with the next three); " +
			"list(A), list(B), diff(A,B), diff(B,A), diff(A,A) are recorded from the real library; for every ordered workload pair and every (workload, address atom, direction) - atoms induced by the range boundaries of both reports and of all diff entries - the number of covering diff entries, their type, both connection values and the new/lost flags are compared with what (c1,c2, workload presence) determine; " +
			"non-trivial = the diff has >= 2 non-empty categories or the two reports partition the address space differently; distinct = hash of both worlds",
		Assumptions:       []string{"list(A) and list(B) are the reference (their own correctness is C01/C02's subject)", "the reserved peer name ingress-controller is never used for a real workload"},
		NumCases:          func(tier string, _ int64) int { return tierN(tier, 1600, 40000) + nFixPairs(tier) },
		Run:               runC04,
		MinNonTrivial:     150,
		MinEffectiveShare: 0.4,
		RequiredEvents: map[string]int64{"points_checked": 20000, "entries_added": 50, "entries_removed": 50, "entries_changed": 50, "entries_unchanged": 200,
			"pairs_with_refined_ranges": 50, "entries_with_newlost_flag": 30, "merged_ip_entries": 50, "edit_moveCIDR": 100, "points_removed_and_added_same_conn_same_workload": 50, "fixture_pairs": 40},
	})
}

type diffPoint struct {
	src, dst string
	c1, c2   *refmodel.Conn
}

func inRanges(rs [][2]uint32, a uint32) bool {
	for _, r := range rs {
		if r[0] <= a && a <= r[1] {
			return true
		}
	}
	return false
}

// checkDiffExact is the C04 oracle: A, B list results and the diff(A,B) result.
func checkDiffExact(r *run.CaseResult, a, b *observe.ListResult, d *observe.DiffResult, monitor string) {
	relA, relB := a.Relation(), b.Relation()
	rgA, rgB := a.IPRanges(), b.IPRanges()
	wlA, wlB := map[string]bool{}, map[string]bool{}
	all := map[string]bool{}
	for _, p := range a.Peers {
		if !p.IsIP {
			wlA[p.Str] = true
			all[p.Str] = true
		}
	}
	for _, p := range b.Peers {
		if !p.IsIP {
			wlB[p.Str] = true
			all[p.Str] = true
		}
	}
	ic := "{ingress-controller}"
	for _, res := range []*observe.ListResult{a, b} {
		for _, e := range res.Entries {
			if e.Src == ic {
				all[ic] = true
			}
		}
	}
	names := make([]string, 0, len(all))
	for n := range all {
		names = append(names, n)
	}
	sort.Strings(names)
	empty := refmodel.NewConn()
	get := func(rel map[[2]string]*refmodel.Conn, s, t string) *refmodel.Conn {
		if s == "" || t == "" {
			return empty
		}
		if c, ok := rel[[2]string{s, t}]; ok {
			return c
		}
		return empty
	}
	nviol := 0
	judge := func(src, dst string, c1, c2 *refmodel.Conn, cover []*observe.DiffEntry, srcWL, dstWL string) {
		r.Ev("points_checked", 1)
		fail := func(shape, exp, got string) {
			nviol++
			if nviol <= 3 {
				r.Violate(monitor, monitor+":point:"+shape, exp, got, src+" -> "+dst)
			}
		}
		if c1.IsEmpty() && c2.IsEmpty() {
			if len(cover) != 0 {
				fail("covered-but-none", "no diff entry (c1=c2=none)", fmt.Sprintf("%d covering entries, first type=%s", len(cover), cover[0].Type))
			}
			return
		}
		if len(cover) != 1 {
			fail(fmt.Sprintf("cover-count-%d", len(cover)), "exactly one covering entry (c1="+c1.String()+", c2="+c2.String()+")", fmt.Sprintf("%d covering entries", len(cover)))
			return
		}
		e := cover[0]
		want := "changed"
		switch {
		case c1.Equal(c2):
			want = "unchanged"
		case c1.IsEmpty():
			want = "added"
		case c2.IsEmpty():
			want = "removed"
		}
		if e.Type != want || e.List != want {
			fail("wrong-type", want, e.Type+" (listed under "+e.List+")")
		}
		if !e.C1.Equal(c1) {
			fail("wrong-ref1-conn", c1.String(), e.C1.String())
		}
		if !e.C2.Equal(c2) {
			fail("wrong-ref2-conn", c2.String(), e.C2.String())
		}
		// new/lost flags: set iff that workload is absent from the other set
		wantSrc, wantDst := false, false
		switch want {
		case "added":
			wantSrc = srcWL != "" && srcWL != ic && !wlA[srcWL]
			wantDst = dstWL != "" && dstWL != ic && !wlA[dstWL]
		case "removed":
			wantSrc = srcWL != "" && srcWL != ic && !wlB[srcWL]
			wantDst = dstWL != "" && dstWL != ic && !wlB[dstWL]
		}
		if e.SrcNew != wantSrc || e.DstNew != wantDst {
			fail("wrong-newlost-flags", fmt.Sprintf("src=%v dst=%v", wantSrc, wantDst), fmt.Sprintf("src=%v dst=%v", e.SrcNew, e.DstNew))
		}
	}
	// boundaries of the two reports: an address entry spanning one of them was merged from several refined blocks
	listBounds := map[uint64]bool{}
	for _, x := range rgA {
		listBounds[uint64(x.Lo)] = true
	}
	for _, x := range rgB {
		listBounds[uint64(x.Lo)] = true
	}
	merged := func(rs [][2]uint32) bool {
		for _, x := range rs {
			for b := range listBounds {
				if uint64(x[0]) < b && b <= uint64(x[1]) {
					return true
				}
			}
		}
		return false
	}
	// index diff entries
	byPair := map[[2]string][]*observe.DiffEntry{}
	bySrcWL := map[string][]*observe.DiffEntry{} // src workload, dst ip
	byDstWL := map[string][]*observe.DiffEntry{} // dst workload, src ip
	for i := range d.Entries {
		e := &d.Entries[i]
		r.Ev("entries_"+e.Type, 1)
		if e.SrcNew || e.DstNew {
			r.Ev("entries_with_newlost_flag", 1)
		}
		switch {
		case !e.SrcIP && !e.DstIP:
			byPair[[2]string{e.Src, e.Dst}] = append(byPair[[2]string{e.Src, e.Dst}], e)
			if !all[e.Src] || !all[e.Dst] {
				nviol++
				r.Violate(monitor, monitor+":entry:unknown-peer", "peers of A or B", e.Src+" -> "+e.Dst, "")
			}
		case e.SrcIP && e.DstIP:
			nviol++
			r.Violate(monitor, monitor+":entry:ip-ip", "no address-address entry", e.Src+" -> "+e.Dst, "")
		case e.DstIP:
			bySrcWL[e.Src] = append(bySrcWL[e.Src], e)
			if merged(e.DstRanges) {
				r.Ev("merged_ip_entries", 1)
			}
		default:
			byDstWL[e.Dst] = append(byDstWL[e.Dst], e)
			if merged(e.SrcRanges) {
				r.Ev("merged_ip_entries", 1)
			}
		}
	}
	for wname, es := range bySrcWL {
		_ = wname
		for _, x := range es {
			for _, y := range es {
				if x.Type == "removed" && y.Type == "added" && x.C1.Equal(y.C2) {
					r.Ev("points_removed_and_added_same_conn_same_workload", 1)
				}
			}
		}
	}
	for _, es := range byDstWL {
		for _, x := range es {
			for _, y := range es {
				if x.Type == "removed" && y.Type == "added" && x.C1.Equal(y.C2) {
					r.Ev("points_removed_and_added_same_conn_same_workload", 1)
				}
			}
		}
	}
	for _, s := range names {
		for _, t := range names {
			if s == t {
				continue
			}
			judge(s, t, get(relA, s, t), get(relB, s, t), byPair[[2]string{s, t}], s, t)
		}
	}
	// address atoms from both reports and all diff entries
	bounds := map[uint64]bool{0: true, 1 << 32: true}
	addR := func(lo, hi uint32) {
		if lo <= hi {
			bounds[uint64(lo)] = true
			bounds[uint64(hi)+1] = true
		}
	}
	for _, x := range rgA {
		addR(x.Lo, x.Hi)
	}
	for _, x := range rgB {
		addR(x.Lo, x.Hi)
	}
	for i := range d.Entries {
		for _, x := range d.Entries[i].SrcRanges {
			addR(x[0], x[1])
		}
		for _, x := range d.Entries[i].DstRanges {
			addR(x[0], x[1])
		}
	}
	bs := make([]uint64, 0, len(bounds))
	for x := range bounds {
		bs = append(bs, x)
	}
	sort.Slice(bs, func(i, j int) bool { return bs[i] < bs[j] })
	r.Ev("address_atoms", int64(len(bs)-1))
	for i := 0; i+1 < len(bs); i++ {
		for _, addr := range []uint32{uint32(bs[i]), uint32(bs[i+1] - 1)} {
			ra, rb := observe.FindRange(rgA, addr), observe.FindRange(rgB, addr)
			for _, wname := range names {
				if wname == ic {
					continue
				}
				cov := []*observe.DiffEntry{}
				for _, e := range bySrcWL[wname] {
					if inRanges(e.DstRanges, addr) {
						cov = append(cov, e)
					}
				}
				judge(wname, world.IPString(addr), get(relA, wname, ra), get(relB, wname, rb), cov, wname, "")
				cov = cov[:0:0]
				for _, e := range byDstWL[wname] {
					if inRanges(e.SrcRanges, addr) {
						cov = append(cov, e)
					}
				}
				judge(world.IPString(addr), wname, get(relA, ra, wname), get(relB, rb, wname), cov, "", wname)
			}
			if bs[i] == bs[i+1]-1 {
				break
			}
		}
	}
}

func rangesDiffer(a, b []observe.IPRange) bool {
	if len(a) != len(b) {
		return true
	}
	for i := range a {
		if a[i].Lo != b[i].Lo || a[i].Hi != b[i].Hi {
			return true
		}
	}
	return false
}

func genDiffBase(g *rng.R) (*world.World, world.Cfg) {
	cfg := world.DefaultCfg()
	cfg.KindTwins, cfg.SharedNames = 0.15, 0.2
	cfg.NamedEgressIP = 0
	cfg.MaxWorkloads = 5
	if g.P(0.3) {
		cfg.Kinds = []string{world.KDeployment, world.KStatefulSet, world.KDaemonSet, world.KPod}
	}
	var w *world.World
	switch g.Intn(5) {
	case 0:
		w = world.GenPrecedenceWorld(g, cfg)
	case 1:
		w = world.GenNPWorld(g, cfg)
		world.GenIngressResources(g, w)
	default:
		w = world.GenNPWorld(g, cfg)
		if g.P(0.4) {
			world.AddCanonStress(g, w)
		}
	}
	return w, cfg
}

// nFixPairs: pairs of manifest directories shipped with the repository (tail of the case list). Directory k of the sorted list is paired
// with directory k+offset: alphabetical neighbours are very often variants of one another (…_old1 / …_old2, a workload set and the same
// set with changed policies), which is what people diff; the further offsets pair unrelated sets.
func nFixPairs(tier string) int { return nFixtureCases * tierN(tier, 1, 4) }

func runC04FixturePair(c *run.Ctx, k int) {
	r := c.Res
	a, b := fixtureFor(c.Repo, k%nFixtureCases), fixtureFor(c.Repo, k%nFixtureCases+1+k/nFixtureCases)
	if a == "" || a == b || filepath.Base(a) == "ipblockstest_4" || filepath.Base(b) == "ipblockstest_4" {
		r.Discarded = "no pair (or the 25-seconds-per-analysis directory)"
		return
	}
	r.Name = "fixtures " + filepath.Base(a) + " vs " + filepath.Base(b)
	r.Hash = "fixturepair/" + filepath.Base(a) + "/" + filepath.Base(b)
	r.Ev("fixture_pairs", 1)
	r.Feat("fixturePair")
	c04JudgeDirs(c, a, b, func(ents []string) map[string]interface{} {
		return map[string]interface{}{"A": a, "B": b, "diff_entries": ents}
	})
}

func runC04(c *run.Ctx) {
	r := c.Res
	if base := tierN(c.Tier, 1600, 40000); c.Idx >= base {
		runC04FixturePair(c, c.Idx-base)
		return
	}
	g := c.R("world")
	wa, cfg := genDiffBase(g)
	wb := wa
	edits := []string{}
	if c.Idx%4 == 1 { // goal-directed: the same connection moves from one address block to a disjoint one
		if nw, ok := world.MoveCIDR(g, wb); ok {
			wb = nw
			edits = append(edits, "moveCIDR")
		}
	}
	for n := g.Range(1, 3); n > 0 && (len(edits) == 0 || g.P(0.5)); n-- {
		nw, name := world.Mutate(g, wb, cfg)
		edits = append(edits, name)
		if nw == nil {
			nw, _ = genDiffBase(g)
		}
		wb = nw
	}
	if c.Idx%20 == 7 {
		// two sets WITHOUT any policy or Ingress/Route that differ in their workloads only: everything is allowed on both sides, the
		// workload that exists on one side only makes added / removed entries with the new / lost flags
		wa = wa.Clone()
		wa.NetPols, wa.ANPs, wa.BANP, wa.Services, wa.Ingresses, wa.Routes = nil, nil, nil, nil, nil, nil
		wb = wa.Clone()
		if len(wb.Workloads) > 2 && g.P(0.5) {
			wb.Workloads = wb.Workloads[:len(wb.Workloads)-1]
		} else {
			wb.Workloads = append(wb.Workloads, world.Workload{Ns: wb.Workloads[0].Ns, Name: "extra", Kind: world.KDeployment, Labels: map[string]string{"app": "c"}, Ports: []world.CPort{{Num: 80}}})
		}
		edits = []string{"policyFreeWorkloadChange"}
	}
	r.Hash = wa.Hash() + wb.Hash()
	r.Feat(edits...)
	for _, e := range edits {
		r.Ev("edit_"+e, 1)
	}
	da, db := c.Dir("A"), c.Dir("B")
	if err := wa.Write(da, c.R("layoutA")); err != nil {
		r.Discarded = err.Error()
		return
	}
	if err := wb.Write(db, c.R("layoutB")); err != nil {
		r.Discarded = err.Error()
		return
	}
	c04JudgeDirs(c, da, db, func(ents []string) map[string]interface{} {
		return map[string]interface{}{"A": shortWorld(wa), "B": shortWorld(wb), "edits": edits, "diff_entries": ents}
	})
}

// c04JudgeDirs records list(A), list(B), diff(A,B), diff(B,A), diff(A,A) of two directories and judges the diffs point by point.
func c04JudgeDirs(c *run.Ctx, da, db string, sample func(ents []string) map[string]interface{}) {
	r := c.Res
	la, lb := observe.List(da, observe.ListOpts{}), observe.List(db, observe.ListOpts{})
	if la.Panic != "" || lb.Panic != "" {
		r.Violate("c04.total", "c04.total:any:panic", "a result or an error", "panic: "+la.Panic+lb.Panic, "")
		return
	}
	if la.HasErr || lb.HasErr {
		r.Ev("list_errors", 1)
		return
	}
	type run3 struct {
		name   string
		d1, d2 string
		x, y   *observe.ListResult
	}
	for _, t := range []run3{{"AB", da, db, la, lb}, {"BA", db, da, lb, la}, {"AA", da, da, la, la}} {
		d := observe.Diff(t.d1, t.d2, observe.DiffOpts{})
		r.Ev("diff_runs", 1)
		if d.Panic != "" {
			r.Violate("c04.total", "c04.total:any:panic", "a result or an error", "panic: "+d.Panic, t.name)
			return
		}
		if d.HasErr {
			r.Violate("c04.exact", "c04.exact:differror:error", "a diff (both sides analysable by list)", "error: "+d.Err, t.name)
			return
		}
		checkDiffExact(r, t.x, t.y, d, "c04.exact."+t.name)
		if t.name == "AA" {
			if !d.Empty {
				r.Violate("c04.exact.AA", "c04.exact.AA:self:nonempty", "diff(A,A) empty", "IsEmpty()=false", "")
			}
			for _, e := range d.Entries {
				if e.Type != "unchanged" {
					r.Violate("c04.exact.AA", "c04.exact.AA:self:entry", "only unchanged entries", e.Type+" "+e.Src+" -> "+e.Dst, "")
					break
				}
			}
		}
		if t.name == "AB" {
			cats := map[string]bool{}
			for _, e := range d.Entries {
				cats[e.Type] = true
			}
			refined := rangesDiffer(la.IPRanges(), lb.IPRanges())
			if refined {
				r.Ev("pairs_with_refined_ranges", 1)
			}
			r.Effective = len(d.Entries) > 0
			r.NonTrivial = len(cats) >= 2 || refined
			if c.Idx%67 == 0 {
				ents := []string{}
				for i, e := range d.Entries {
					if i >= 10 {
						break
					}
					ents = append(ents, fmt.Sprintf("%s: %s => %s : %s -> %s (srcNewLost=%v dstNewLost=%v)", e.Type, e.Src, e.Dst, e.C1, e.C2, e.SrcNew, e.DstNew))
				}
				r.SetSample(sample(ents))
			}
		}
	}
}
