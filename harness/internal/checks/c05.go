package checks

import (
	"fmt"

	"verif/harness/internal/observe"
	"verif/harness/internal/rng"
	"verif/harness/internal/run"
	"verif/harness/internal/world"
)

func init() {
	run.Register(&run.Check{
		ID:    "C05",
		Level: "exploration",
		Rule: "cases: the 212 manifest directories shipped with the repository (inputs only) first, then six generated world families by index (NetworkPolicy worlds; worlds with canonicalisation-stress port lists and CIDR layouts; ANP/BANP precedence worlds; worlds with Services/Ingresses/Routes; exposure analysis on; focus-workload on), each analysed through ConnlistFromDirPath and, for a third of them, ConnlistFromResourceInfos; " +
			"an invariant monitor walks the returned []Peer2PeerConnection and []Peer: unique (src,dst), no self/ip-ip/empty entries, IP peers single contiguous pairwise-disjoint ranges covering 0.0.0.0-255.255.255.255, All flag <=> three full ranges, per-protocol ranges sorted/disjoint/non-adjacent within 1..65535; " +
			"non-trivial = the result has an entry with a partial (non-All) connection or at least two IP peers; distinct = world content hash + family",
		Assumptions:       []string{"inputs are API-admissible", "IP peer ranges are read from Peer.IP() and parsed by our own dotted-quad parser"},
		NumCases:          func(tier string, _ int64) int { return tierN(tier, 1800, 80000) + nFix(tier) },
		Run:               runC05,
		MinNonTrivial:     400,
		MinEffectiveShare: 0.5,
		RequiredEvents: map[string]int64{"entries_checked": 5000, "ip_peers_checked": 1000, "partial_connections": 1000, "all_connections": 500,
			"multi_range_connections": 100, "family_canon": 100, "family_anp": 100, "family_ingress": 100, "family_exposure": 100, "family_focus": 100, "family_fixture": 50},
	})
}

// checkWellFormed runs the C05 invariant monitor over a result and records what it walked.
func checkWellFormed(r *run.CaseResult, res *observe.ListResult, peersComplete bool, monitor string) {
	for _, p := range observe.WellFormed(res, peersComplete) {
		r.Violate(monitor, monitor+":"+p.Kind+":invariant", "well-formed canonical relation", p.Kind+": "+p.Detail, "")
	}
	r.Ev("entries_checked", int64(len(res.Entries)))
	nip := 0
	for _, p := range res.Peers {
		if p.IsIP {
			nip++
		}
	}
	r.Ev("ip_peers_checked", int64(nip))
	for _, e := range res.Entries {
		if e.All {
			r.Ev("all_connections", 1)
		} else {
			r.Ev("partial_connections", 1)
			for _, rs := range e.Ranges {
				r.Ev("port_ranges_checked", int64(len(rs)))
				if len(rs) > 1 {
					r.Ev("multi_range_connections", 1)
				}
			}
		}
	}
}

func genFamilyWorld(g *rng.R, fam int) (*world.World, observe.ListOpts, string) {
	cfg := world.DefaultCfg()
	cfg.KindTwins, cfg.SharedNames = 0.1, 0.1
	cfg.NamedEgressIP = 0
	if g.P(0.3) {
		cfg.Kinds = world.AllWorkloadKinds
	}
	opts := observe.ListOpts{}
	var w *world.World
	name := ""
	switch fam {
	case 0:
		w = world.GenNPWorld(g, cfg)
		name = "np"
	case 1:
		cfg.MinNetPols, cfg.MaxNetPols = 0, 2
		w = world.GenNPWorld(g, cfg)
		world.AddCanonStress(g, w)
		name = "canon"
	case 2:
		w = world.GenPrecedenceWorld(g, cfg)
		name = "anp"
	case 3:
		w = world.GenNPWorld(g, cfg)
		if g.P(0.3) {
			world.GenAdmin(g, w, cfg, 1, 2, 0.3)
		}
		world.GenIngressResources(g, w)
		name = "ingress"
	case 4:
		cfg.UnusedNsPolicy = 0
		w = world.GenNPWorld(g, cfg)
		if g.P(0.3) {
			world.AddCanonStress(g, w)
		}
		opts.Exposure = true
		name = "exposure"
	default:
		w = world.GenNPWorld(g, cfg)
		if g.P(0.4) {
			world.GenIngressResources(g, w)
		}
		wl := rng.Pick(g, w.Workloads)
		opts.Focus = wl.Name
		if g.P(0.4) {
			opts.Focus = wl.Ns + "/" + wl.Name
		}
		name = "focus"
	}
	return w, opts, name
}

const nFixtureCases = 212

func runC05Fixture(c *run.Ctx) {
	r := c.Res
	dir := fixtureAt(c.Repo, c.Tier, c.Idx)
	if dir == "" {
		r.Discarded = "no fixtures"
		return
	}
	r.Name = "fixture " + dir
	r.Hash = "fixture/" + dir
	r.Ev("family_fixture", 1)
	for _, opts := range []observe.ListOpts{{}, {ViaInfos: true}, {Exposure: true}} {
		res := observe.List(dir, opts)
		if res.Panic != "" {
			r.Violate("c05.total", "c05.total:any:panic", "a result or an error", "panic: "+res.Panic, dir)
			return
		}
		if res.HasErr {
			r.Ev("tool_errors", 1)
			continue
		}
		checkWellFormed(r, res, true, "c05.wellformed")
		if len(res.Entries) > 0 {
			r.Effective, r.NonTrivial = true, true
		}
	}
}

func runC05(c *run.Ctx) {
	r := c.Res
	g := c.R("world")
	if c.Idx < nFix(c.Tier) {
		runC05Fixture(c)
		return
	}
	fam := c.Idx % 6
	w, opts, name := genFamilyWorld(g, fam)
	r.Hash = w.Hash() + "/" + name
	r.Feat(w.Features...)
	r.Ev("family_"+name, 1)
	dir := c.Dir("input")
	if err := w.Write(dir, c.R("layout")); err != nil {
		r.Discarded = "emit: " + err.Error()
		return
	}
	opts.ViaInfos = c.Idx%3 == 1
	res := observe.List(dir, opts)
	if res.Panic != "" {
		r.Violate("c05.total", "c05.total:any:panic", "a result or an error", "panic: "+res.Panic, "")
		return
	}
	if res.HasErr {
		r.Ev("tool_errors", 1)
		r.Inconclusive = ""
		return
	}
	checkWellFormed(r, res, true, "c05.wellformed")
	nip := 0
	for _, p := range res.Peers {
		if p.IsIP {
			nip++
		}
	}
	partial := false
	for _, e := range res.Entries {
		if !e.All {
			partial = true
		}
	}
	r.Effective = len(res.Entries) > 0
	r.NonTrivial = len(res.Entries) > 0 && (partial || nip >= 2)
	if c.Idx%131 == 0 || len(r.Violations) > 0 {
		s := sampleOf(w, res, 10)
		s["family"] = name
		peers := []string{}
		for _, p := range res.Peers {
			peers = append(peers, p.Str)
		}
		s["peers"] = peers
		s["options"] = fmt.Sprintf("%+v", opts)
		r.SetSample(s)
	}
}
