package checks

import (
	"fmt"
	"sort"
	"strings"

	"verif/harness/internal/observe"
	"verif/harness/internal/refmodel"
	"verif/harness/internal/rng"
	"verif/harness/internal/run"
	"verif/harness/internal/world"
)

const expRule = "cases: NetworkPolicy-only worlds rich in rule selectors (nil / {} / specific namespace selectors, pod selectors with expressions, the same selector in several policies and both directions, selectors real workloads do and do not satisfy, named ports, entire-cluster rules next to specific ones) analysed with WithExposureAnalysis(); " +
	"for every workload and direction the reported exposure entries are judged against the reference model on HYPOTHETICAL pods enumerated exhaustively over the vocabulary: 125 pod label sets (3 keys x {absent,a,b,c,fresh}) x (every existing namespace + a new namespace under 70 label sets) x 5 named-port declarations (names -> fresh numbers under TCP, under UDP/SCTP; none; names -> numbers the policies mention, under TCP and under UDP/SCTP); "

func init() {
	run.Register(&run.Check{
		ID:    "C06",
		Level: "exploration",
		Rule: expRule + "C06 oracle: (a) the workload/IP relation with the flag equals the relation without it, point-wise; (b) a workload is marked unprotected in a direction iff no policy governs it there (absence from ExposedPeers() = protected); (c) every entry is realizable - judged twice, by the reference model on hypothetical pods and, model-free, by ADDING a pod that satisfies the entry's selectors to the input as a real pod in a new policy-free namespace and re-running list: for each hypothetical pod satisfying its selectors (any pod for entire-cluster) the workload's direction-only verdict contains the entry's connections, a named port of an egress entry meaning that name as declared by the hypothetical pod; " +
			"non-trivial = at least one non-entire-cluster exposure entry was judged; distinct = world hash",
		Assumptions:       []string{"a residual named port in an INGRESS entry names a port the real workload does not declare and denotes no point", "exposure analysis is NetworkPolicy-only (the tool refuses admin policies)", "selectors are evaluated by our own matcher; the entry's selectors are read through the public ExposedPeer API, its named ports through the verif alias export"},
		NumCases:          func(tier string, _ int64) int { return tierN(tier, 2000, 40000) },
		Run:               func(c *run.Ctx) { runExposure(c, "C06") },
		MinNonTrivial:     100,
		MinEffectiveShare: 0.5,
		RequiredEvents: map[string]int64{"hypothetical_pods": 1000000, "entries_judged": 2000, "entire_cluster_entries": 300, "selector_entries": 1000, "egress_entries_with_named_ports": 30,
			"protected_flags_checked": 2000, "unprotected_directions": 300, "base_relation_points_compared": 20000, "worlds_policy_in_namespace_without_manifest_or_workloads": 10, "real_pod_witness_runs": 200},
	})
	run.Register(&run.Check{
		ID:    "C07",
		Level: "exploration",
		Rule: expRule + "C07 oracle: for every protected (workload, direction) and every hypothetical pod, every point the model allows through a rule peer that is not covered by the documented omission (a peer whose pod and namespace selectors are non-empty pure label equalities that an existing workload in a matching namespace satisfies) must lie in the union of the workload's entire-cluster exposure and of the reported entries whose selectors the pod satisfies; " +
			"non-trivial = some hypothetical pod was allowed a point through a non-omitted specific (non entire-cluster) rule; distinct = world hash",
		Assumptions:       []string{"the omission is applied generously (matchLabels and single-value In both count as equalities), which can only make the oracle weaker, never raise an alarm", "same matcher / API reading as C06"},
		NumCases:          func(tier string, _ int64) int { return tierN(tier, 2000, 40000) },
		Run:               func(c *run.Ctx) { runExposure(c, "C07") },
		MinNonTrivial:     100,
		MinEffectiveShare: 0.5,
		RequiredEvents:    map[string]int64{"hypothetical_pods": 1000000, "pods_allowed_through_specific_rule": 2000, "points_needing_cover_checked": 100000, "omitted_rule_peers": 50, "named_port_points_needing_cover": 1000},
	})
}

type hpod struct {
	ns     string
	nsl    map[string]string
	labels map[string]string
	newNs  bool
}

func onlyEq(s *world.Sel) bool {
	if s == nil {
		return false
	}
	n := len(s.ML)
	for _, e := range s.ME {
		distinct := map[string]bool{}
		for _, v := range e.Vals {
			distinct[v] = true
		}
		if e.Op == "In" && len(distinct) == 1 { // a repeated value is still one value (the tool reads the values as a set)
			n++
		} else {
			return false
		}
	}
	return n > 0
}

var expPortVariants = [][]world.CPort{
	{{Num: 7001, Name: "http", Proto: "TCP"}, {Num: 7002, Name: "dns"}, {Num: 7003, Name: "metrics", Proto: "TCP"}},
	{{Num: 7001, Name: "http", Proto: "UDP"}, {Num: 7002, Name: "dns", Proto: "UDP"}, {Num: 7004, Name: "metrics", Proto: "SCTP"}},
	{},
	// names declared on numbers the policies themselves mention (a named port may denote exactly the port a numeric rule leaves out)
	{{Num: 80, Name: "http", Proto: "TCP"}, {Num: 443, Name: "dns"}, {Num: 8080, Name: "metrics", Proto: "TCP"}},
	{{Num: 80, Name: "http", Proto: "UDP"}, {Num: 443, Name: "dns", Proto: "SCTP"}, {Num: 8080, Name: "metrics", Proto: "UDP"}},
}

func expLabelSets(vals []string) []map[string]string {
	out := []map[string]string{}
	for _, a := range vals {
		for _, b := range vals {
			for _, c := range vals {
				m := map[string]string{}
				for i, v := range []string{a, b, c} {
					if v != "" {
						m[world.Keys[i]] = v
					}
				}
				out = append(out, m)
			}
		}
	}
	return out
}

// genExposureWorld: NP-only worlds with many shared selectors.
func genExposureWorld(g *rng.R, allowUnusedNs bool) *world.World {
	cfg := world.DefaultCfg()
	cfg.KindTwins, cfg.SharedNames = 0.15, 0.1
	cfg.NamedEgressIP = 0
	cfg.MaxWorkloads = 5
	cfg.MinNetPols, cfg.MaxNetPols = 1, 5
	cfg.UnusedNsPolicy = 0
	if allowUnusedNs {
		cfg.UnusedNsPolicy = 0.5
	}
	w := world.GenNPWorld(g, cfg)
	if g.P(0.3) { // full / almost-full / complementary port sets, also as entire-cluster rules next to specific ones
		world.AddCanonStress(g, w)
	}
	if g.P(0.15) { // workloads and a policy in the namespace literally called "default" (manifests without metadata.namespace)
		world.AddDefaultNamespaceWorkloads(g, w, cfg)
	}
	if g.P(0.2) { // Ingress / Route objects next to exposure analysis: the synthetic ingress controller is one more peer in the engine
		world.GenIngressResources(g, w)
	}
	// share selectors between policies and directions
	var pool []*world.NPPeer
	for i := range w.NetPols {
		for _, rules := range [][]world.NPRule{w.NetPols[i].Ingress, w.NetPols[i].Egress} {
			for ri := range rules {
				for pi := range rules[ri].Peers {
					if rules[ri].Peers[pi].IPBlock == nil {
						pool = append(pool, &rules[ri].Peers[pi])
					}
				}
			}
		}
	}
	// near-miss peers: selectors that an existing workload satisfies only in part (the refinement by real pods must not fire)
	for i := range w.NetPols {
		if !g.P(0.35) || len(w.Workloads) == 0 {
			continue
		}
		x := rng.Pick(g, w.Workloads)
		nsl := w.NsLabels(x.Ns)
		peer := world.NPPeer{PodSel: &world.Sel{}, NsSel: &world.Sel{}}
		if len(x.Labels) > 0 {
			k := rng.Pick(g, world.SortedKeys(x.Labels))
			peer.PodSel.ML = map[string]string{k: x.Labels[k]}
		} else {
			peer.PodSel.ML = map[string]string{"app": "a"}
		}
		nk := rng.Pick(g, world.SortedKeys(nsl))
		peer.NsSel.ML = map[string]string{nk: nsl[nk]}
		switch g.Intn(4) {
		case 0: // namespace matchLabels satisfied, matchExpressions violated
			peer.NsSel.ME = []world.Req{{Key: nk, Op: "NotIn", Vals: []string{nsl[nk]}}}
		case 1:
			peer.NsSel.ME = []world.Req{{Key: "zone", Op: "Exists"}}
		case 2: // pod matchLabels satisfied, matchExpressions violated
			peer.PodSel.ME = []world.Req{{Key: "role", Op: "In", Vals: []string{"x"}}}
		default: // an extra equality nobody satisfies
			peer.PodSel.ML["role"] = "x"
		}
		rule := world.NPRule{Peers: []world.NPPeer{peer}, Ports: []world.NPPort{{Port: rng.Pick(g, world.PortNums)}}}
		if g.P(0.5) {
			w.NetPols[i].Ingress = append(w.NetPols[i].Ingress, rule)
		} else if w.NetPols[i].HasDirection(false) {
			w.NetPols[i].Egress = append(w.NetPols[i].Egress, rule)
		}
		w.AddFeature("nearMissPeer")
	}
	// namespace-name operators: a rule selecting namespaces by an expression over kubernetes.io/metadata.name (NotIn / two-valued In /
	// Exists / DoesNotExist) next to an own-namespace rule (nil namespaceSelector) of a policy living in the named namespace
	if g.P(0.25) && len(w.Workloads) > 0 && len(w.NetPols) > 0 {
		x := rng.Pick(g, w.Workloads)
		ingress := g.P(0.5)
		var podSel *world.Sel
		switch g.Intn(3) {
		case 0:
			podSel = &world.Sel{}
		case 1:
			podSel = world.GenSel(g, w, true, 0)
		}
		req := world.Req{Key: world.MetaName, Op: rng.Pick(g, []string{"NotIn", "NotIn", "In", "Exists", "DoesNotExist"})}
		switch req.Op {
		case "NotIn":
			req.Vals = []string{x.Ns}
			if g.P(0.3) {
				req.Vals = append(req.Vals, rng.Pick(g, world.NsNames))
			}
		case "In":
			req.Vals = []string{x.Ns, rng.Pick(g, world.NsNames)}
		}
		sort.Strings(req.Vals)
		port := world.NPPort{Port: rng.Pick(g, world.PortNums)}
		add := func(np *world.NetPol, rule world.NPRule) {
			if ingress {
				np.Ingress = append(np.Ingress, rule)
			} else {
				np.Egress = append(np.Egress, rule)
				if np.HasTypes && !np.HasDirection(false) {
					np.PolicyTypes = append(np.PolicyTypes, "Egress")
				}
			}
		}
		add(&w.NetPols[g.Intn(len(w.NetPols))], world.NPRule{Peers: []world.NPPeer{{PodSel: podSel, NsSel: &world.Sel{ME: []world.Req{req}}}}, Ports: []world.NPPort{port}})
		own := world.NetPol{Ns: x.Ns, Name: "own-ns-" + x.Name, PodSel: world.Sel{}}
		ownPod := podSel
		if ownPod == nil || g.P(0.5) {
			ownPod = &world.Sel{}
		}
		add(&own, world.NPRule{Peers: []world.NPPeer{{PodSel: ownPod}}, Ports: []world.NPPort{{Port: rng.Pick(g, world.PortNums)}}})
		if !ingress {
			own.HasTypes, own.PolicyTypes = true, []string{"Egress"}
		}
		w.NetPols = append(w.NetPols, own)
		w.AddFeature("nsNameOperator")
	}
	// a namespace selected by its name AND further labels in one selector ({kubernetes.io/metadata.name: N, env: a}): N is a namespace of
	// the input or one that does not exist yet; the extra requirement is part of what the rule allows and of what the report must say
	if gi := rng.New("exposure-ns-name-plus-labels", int64(len(w.NetPols)), len(w.Workloads), w.Hash()); gi.P(0.2) && len(w.NetPols) > 0 {
		name := "futurens"
		if gi.P(0.4) {
			name = rng.Pick(gi, w.Namespaces).Name
		}
		sel := &world.Sel{ML: map[string]string{world.MetaName: name, rng.Pick(gi, world.Keys): rng.Pick(gi, world.Vals)}}
		var podSel *world.Sel
		switch gi.Intn(3) {
		case 0:
			podSel = &world.Sel{}
		case 1:
			podSel = &world.Sel{ML: map[string]string{rng.Pick(gi, world.Keys): rng.Pick(gi, world.Vals)}}
		}
		np := &w.NetPols[gi.Intn(len(w.NetPols))]
		rule := world.NPRule{Peers: []world.NPPeer{{PodSel: podSel, NsSel: sel}}, Ports: []world.NPPort{{Port: rng.Pick(gi, world.PortNums)}}}
		if gi.P(0.5) {
			np.Ingress = append(np.Ingress, rule)
		} else {
			np.Egress = append(np.Egress, rule)
			if np.HasTypes && !np.HasDirection(false) {
				np.PolicyTypes = append(np.PolicyTypes, "Egress")
			}
		}
		w.AddFeature("nsNamePlusLabels")
	}
	if len(pool) > 1 {
		for k := g.Intn(3); k > 0; k-- {
			a, b := pool[g.Intn(len(pool))], pool[g.Intn(len(pool))]
			cp := *a
			*b = cp
		}
	}
	return w
}

func runExposure(c *run.Ctx, prop string) {
	r := c.Res
	g := c.R("world")
	allowUnused := prop == "C06" && c.Idx%2 == 0
	w := genExposureWorld(g, allowUnused)
	world.UnifySpellings(w)
	// the same selector with its matchExpressions written in another order, in a second rule for the same workload and direction with
	// another port (added after the spellings are unified on purpose: both orders must lead to the same representative peer AND both
	// rules must be matched against it)
	if g.P(0.2) && len(w.Workloads) > 0 {
		x := rng.Pick(g, w.Workloads)
		k := rng.Pick(g, world.Keys)
		reqs := [][]world.Req{
			{{Key: k, Op: "Exists"}, {Key: k, Op: "NotIn", Vals: []string{rng.Pick(g, world.Vals)}}},
			{{Key: k, Op: "NotIn", Vals: []string{"a"}}, {Key: k, Op: "NotIn", Vals: []string{"b"}}},
			{{Key: k, Op: "In", Vals: []string{"a", "b"}}, {Key: k, Op: "NotIn", Vals: []string{"b", "c"}}},
		}[g.Intn(3)]
		rev := []world.Req{reqs[1], reqs[0]}
		ingress := g.P(0.5)
		var nsSel *world.Sel
		if g.P(0.4) {
			nsSel = &world.Sel{ML: map[string]string{"zone": "z"}}
		}
		ports := []int{8080, 9090}
		for i, me := range [][]world.Req{reqs, rev} {
			np := world.NetPol{Ns: x.Ns, Name: fmt.Sprintf("reorder%d", i), PodSel: *world.SelFor(g, x.Labels), HasTypes: true}
			rule := world.NPRule{Peers: []world.NPPeer{{PodSel: &world.Sel{ME: me}, NsSel: nsSel}}, Ports: []world.NPPort{{Port: ports[i]}}}
			if ingress {
				np.Ingress, np.PolicyTypes = []world.NPRule{rule}, []string{"Ingress"}
			} else {
				np.Egress, np.PolicyTypes = []world.NPRule{rule}, []string{"Egress"}
			}
			w.NetPols = append(w.NetPols, np)
		}
		w.AddFeature("reorderedExpressions")
	}
	// one policy opens a NAMED port to the entire cluster for several workloads that carry other numbers behind the name (or none)
	if g.P(0.12) && len(w.Workloads) > 1 {
		x := rng.Pick(g, w.Workloads)
		name := rng.Pick(g, world.PortNames)
		n := 0
		for i := range w.Workloads {
			if w.Workloads[i].Ns != x.Ns {
				continue
			}
			kept := []world.CPort{}
			for _, cp := range w.Workloads[i].Ports {
				if cp.Name != name {
					kept = append(kept, cp)
				}
			}
			if n != 1 { // the second workload of the namespace does not define the name at all
				kept = append(kept, world.CPort{Num: 7000 + 10*n, Name: name, Proto: "TCP"})
			}
			w.Workloads[i].Ports = kept
			n++
		}
		rule := world.NPRule{Ports: []world.NPPort{{Name: name}}}
		if g.P(0.5) {
			rule.Peers = []world.NPPeer{{NsSel: &world.Sel{}}}
		}
		w.NetPols = append(w.NetPols, world.NetPol{Ns: x.Ns, Name: "named-port-for-all", PodSel: world.Sel{}, HasTypes: true, PolicyTypes: []string{"Ingress"}, Ingress: []world.NPRule{rule}})
		w.AddFeature("namedPortOpenToEntireClusterForSeveralWorkloads")
	}
	// "all pods of the namespaces matching S" written once WITHOUT podSelector and once with an explicit empty one, in two rules with
	// different ports (added after the spellings are unified on purpose)
	if g.P(0.15) && len(w.Workloads) > 0 {
		x := rng.Pick(g, w.Workloads)
		nsSel := &world.Sel{ML: map[string]string{rng.Pick(g, world.Keys): rng.Pick(g, world.Vals)}}
		ingress := g.P(0.5)
		peers := []world.NPPeer{{NsSel: nsSel}, {NsSel: nsSel, PodSel: &world.Sel{}}}
		if g.P(0.3) {
			peers[0], peers[1] = peers[1], peers[0]
		}
		for i, peer := range peers {
			np := world.NetPol{Ns: x.Ns, Name: fmt.Sprintf("allpods%d", i), PodSel: *world.SelFor(g, x.Labels), HasTypes: true}
			rule := world.NPRule{Peers: []world.NPPeer{peer}, Ports: []world.NPPort{{Port: []int{8080, 9090}[i]}}}
			if ingress {
				np.Ingress, np.PolicyTypes = []world.NPRule{rule}, []string{"Ingress"}
			} else {
				np.Egress, np.PolicyTypes = []world.NPRule{rule}, []string{"Egress"}
			}
			w.NetPols = append(w.NetPols, np)
		}
		w.AddFeature("allPodsWithAndWithoutPodSelector")
	}
	// an egress rule towards specific selectors on a NAMED port next to an entire-cluster egress rule on a number - the number the
	// workload ITSELF declares under that name: the name belongs to the (hypothetical) destination, which may declare it elsewhere
	if g.P(0.15) && len(w.Workloads) > 0 {
		xi := g.Intn(len(w.Workloads))
		x := &w.Workloads[xi]
		name, num := "http", 8080
		found := false
		for _, cp := range x.Ports {
			if cp.Name != "" && cp.Protocol() == "TCP" {
				name, num, found = cp.Name, cp.Num, true
			}
		}
		if !found {
			x.Ports = append(x.Ports, world.CPort{Num: num, Name: name, Proto: "TCP"})
			for _, cp := range x.Ports[:len(x.Ports)-1] {
				if cp.Name == name || (cp.Num == num && cp.Protocol() == "TCP") {
					x.Ports = x.Ports[:len(x.Ports)-1] // keep the declaration valid (unique names, unique number/protocol pairs)
					name, num = "", 0
				}
			}
		}
		if name != "" {
			np := world.NetPol{Ns: x.Ns, Name: "ownport", PodSel: *world.SelFor(g, x.Labels), HasTypes: true, PolicyTypes: []string{"Egress"}}
			wide := world.NPRule{Peers: []world.NPPeer{{NsSel: &world.Sel{}}}, Ports: []world.NPPort{{Proto: "TCP", Port: num}}}
			narrow := world.NPRule{Peers: []world.NPPeer{{NsSel: world.GenSel(g, w, false, 0)}}, Ports: []world.NPPort{{Proto: "TCP", Name: name}}}
			if g.P(0.4) {
				narrow.Peers[0].PodSel = world.GenSel(g, w, true, 0.2)
			}
			np.Egress = []world.NPRule{wide, narrow}
			if g.P(0.5) {
				np.Egress = []world.NPRule{narrow, wide}
			}
			w.NetPols = append(w.NetPols, np)
			w.AddFeature("namedEgressPortDeclaredBySource")
		}
	}
	// two DIFFERENT selectors whose requirements, written one after the other, read the same ("app" + "tier" / "apptier"): each needs
	// its own representative peer
	if g.P(0.15) && len(w.Workloads) > 0 {
		x := rng.Pick(g, w.Workloads)
		pairs := [][2]world.Sel{
			{{ME: []world.Req{{Key: "app", Op: "Exists"}, {Key: "tier", Op: "Exists"}}}, {ME: []world.Req{{Key: "apptier", Op: "Exists"}}}},
			{{ME: []world.Req{{Key: "env", Op: "Exists"}, {Key: "tier", Op: "NotIn", Vals: []string{"a"}}}}, {ME: []world.Req{{Key: "envtier", Op: "NotIn", Vals: []string{"a"}}}}},
			{{ML: map[string]string{"app": "a"}, ME: []world.Req{{Key: "tier", Op: "Exists"}}}, {ML: map[string]string{"app": "atier"}}},
		}
		pair := pairs[g.Intn(len(pairs))]
		if g.P(0.5) {
			pair[0], pair[1] = pair[1], pair[0]
		}
		ingress := g.P(0.5)
		for i := range pair {
			np := world.NetPol{Ns: x.Ns, Name: fmt.Sprintf("concat%d", i), PodSel: *world.SelFor(g, x.Labels), HasTypes: true}
			sel := pair[i]
			rule := world.NPRule{Peers: []world.NPPeer{{PodSel: &sel}}, Ports: []world.NPPort{{Port: []int{8080, 9090}[i]}}}
			if ingress {
				np.Ingress, np.PolicyTypes = []world.NPRule{rule}, []string{"Ingress"}
			} else {
				np.Egress, np.PolicyTypes = []world.NPRule{rule}, []string{"Egress"}
			}
			w.NetPols = append(w.NetPols, np)
		}
		w.AddFeature("concatenationTwins")
	}
	r.Hash = w.Hash()
	r.Feat(w.Features...)
	// structural pattern of finding C06(a): a policy in a namespace with neither manifest nor workload, with a podSelector-only rule peer
	patternA := false
	for i := range w.NetPols {
		np := &w.NetPols[i]
		ns := w.NsByName(np.Ns)
		hasWl := false
		for _, wl := range w.Workloads {
			if wl.Ns == np.Ns {
				hasWl = true
			}
		}
		if (ns == nil || !ns.HasObj) && !hasWl {
			for _, rules := range [][]world.NPRule{np.Ingress, np.Egress} {
				for _, rule := range rules {
					for _, p := range rule.Peers {
						if p.IPBlock == nil && p.NsSel == nil {
							patternA = true
						}
					}
				}
			}
		}
	}
	if patternA {
		r.Ev("worlds_policy_in_namespace_without_manifest_or_workloads", 1)
	}
	dir := c.Dir("input")
	if err := w.Write(dir, c.R("layout")); err != nil {
		r.Discarded = err.Error()
		return
	}
	base := observe.List(dir, observe.ListOpts{})
	exp := observe.List(dir, observe.ListOpts{Exposure: true})
	if base.Panic != "" || exp.Panic != "" {
		r.Violate(strings.ToLower(prop)+".total", strings.ToLower(prop)+".total:any:panic", "a result or an error", "panic: "+base.Panic+exp.Panic, "")
		return
	}
	if base.HasErr {
		r.Ev("base_errors", 1)
		return
	}
	if exp.HasErr {
		if prop == "C06" {
			pat := "other"
			if patternA && strings.Contains(exp.Err, "is missing") {
				pat = "policy-namespace-unknown"
			}
			r.Violate("c06.base", "c06.base:"+pat+":exposure-error", "the same workload/IP connectivity as without --exposure", "error: "+exp.Err, "")
		}
		return
	}
	if prop == "C06" {
		nv := 0
		n := forEachPoint(base, exp, nil, func(p point) {
			if strings.HasPrefix(p.Src, "{") || strings.HasPrefix(p.Dst, "{") {
				return
			}
			if !p.A.Equal(p.B) {
				nv++
				if nv <= 2 {
					r.Violate("c06.base", "c06.base:relation:differs", "the same connectivity with and without --exposure", p.A.String()+" vs "+p.B.String(), p.Src+" => "+p.Dst)
				}
			}
		})
		r.Ev("base_relation_points_compared", int64(n))
	}
	judgeExposure(c, w, exp, prop)
	if prop == "C06" && c.Idx%3 == 0 && len(r.Violations) == 0 {
		realWitness(c, w, exp)
	}
}

// solveSel builds a label set satisfying a selector (nil if it cannot: contradictory requirements).
func solveSel(s *world.Sel) map[string]string {
	l := map[string]string{}
	if s == nil {
		return l
	}
	for k, v := range s.ML {
		l[k] = v
	}
	for _, e := range s.ME {
		switch e.Op {
		case "In":
			if _, ok := l[e.Key]; !ok && len(e.Vals) > 0 {
				l[e.Key] = e.Vals[0]
			}
		case "Exists":
			if _, ok := l[e.Key]; !ok {
				l[e.Key] = "x"
			}
		}
	}
	if !refmodel.Match(s, l) {
		// try the other values of In requirements
		for _, e := range s.ME {
			if e.Op == "In" {
				for _, v := range e.Vals {
					l[e.Key] = v
					if refmodel.Match(s, l) {
						return l
					}
				}
			}
		}
		return nil
	}
	return l
}

// realWitness is the model-free half of the soundness oracle: a pod satisfying an entry's selectors is ADDED to the input as a real
// pod in a new, policy-free namespace, list is run again, and the real connectivity between the workload and that pod must contain
// the entry's connections (no reference model involved, only the selector solver).
func realWitness(c *run.Ctx, w *world.World, exp *observe.ListResult) {
	r := c.Res
	done := 0
	for _, ep := range exp.Exposed {
		for di, ents := range [][]observe.XgressInfo{ep.Ingress, ep.Egress} {
			ingress := di == 0
			for ei := range ents {
				e := &ents[ei]
				if e.EntireCluster || done >= 3 {
					continue
				}
				nsl := solveSel(e.NsSel)
				pl := solveSel(e.PodSel)
				if nsl == nil || pl == nil {
					continue
				}
				nsName := "witness-ns"
				if n, ok := nsl[world.MetaName]; ok {
					if w.NsByName(n) != nil {
						continue // pinned to an existing namespace: its policies would govern the witness pod too
					}
					nsName = n
				}
				if !refmodel.Match(e.NsSel, func() map[string]string {
					m := map[string]string{world.MetaName: nsName}
					for k, v := range nsl {
						m[k] = v
					}
					return m
				}()) {
					continue
				}
				done++
				v := w.Clone()
				delete(nsl, world.MetaName)
				v.Namespaces = append(v.Namespaces, world.Namespace{Name: nsName, HasObj: true, Labels: nsl})
				pod := world.Workload{Ns: nsName, Name: "witness", Kind: world.KPod, Labels: pl}
				// declare the entry's named ports on the witness pod (egress: the pod is the destination)
				want := e.Conn.Clone()
				num := 7001
				if !ingress {
					declared := map[string]bool{} // a pod declares a port name once, under one protocol
					for _, pr := range []string{"SCTP", "TCP", "UDP"} {
						for _, n := range e.Named[pr] {
							if declared[n] {
								continue
							}
							declared[n] = true
							pod.Ports = append(pod.Ports, world.CPort{Num: num, Proto: pr, Name: n})
							want.AddRange(pr, num, num)
							num++
						}
					}
				}
				v.Workloads = append(v.Workloads, pod)
				dir := c.Dir(fmt.Sprintf("witness%d", done))
				if v.Write(dir, nil) != nil {
					continue
				}
				res := observe.List(dir, observe.ListOpts{})
				if res.Panic != "" || res.HasErr {
					r.Ev("witness_runs_failed", 1)
					continue
				}
				r.Ev("real_pod_witness_runs", 1)
				rel := res.Relation()
				src, dst := ep.Peer, pod.PeerString()
				if ingress {
					src, dst = dst, src
				}
				got := rel[[2]string{src, dst}]
				if got == nil {
					got = refmodel.NewConn()
				}
				if !want.SubsetOf(got) {
					dn := "egress"
					if ingress {
						dn = "ingress"
					}
					r.Violate("c06.witness", "c06.witness:"+dn+":real-pod-lacks-entry-connections", "real connectivity "+src+" => "+dst+" contains the entry's "+want.String(),
						got.String(), "entry "+entryStr(e)+" of "+ep.Peer+"; witness pod labels "+fmt.Sprint(pl)+" in namespace "+nsName+" labels "+fmt.Sprint(nsl))
				}
			}
		}
	}
}

// judgeExposure checks the exposure result of one run against the model (soundness/flags for C06, completeness for C07).
func judgeExposure(c *run.Ctx, w *world.World, exp *observe.ListResult, prop string) {
	r := c.Res
	m := &refmodel.Model{W: w}
	exposed := map[string]*observe.ExposedInfo{}
	for i := range exp.Exposed {
		exposed[exp.Exposed[i].Peer] = &exp.Exposed[i]
	}
	podLabelSets := expLabelSets([]string{"", "a", "b", "c", "fresh"})
	nsLabelSets := expLabelSets([]string{"", "a", "b", "c"})
	nsLabelSets = append(nsLabelSets, map[string]string{"app": "fresh"}, map[string]string{"env": "fresh", "tier": "a"}, map[string]string{"zzz": "1"},
		map[string]string{"app": "a", "zzz": "1"}, map[string]string{"tier": "fresh"}, map[string]string{"app": "b", "env": "fresh"})
	// namespaces: every existing one with its labels, plus a new one under every label set
	type nsCase struct {
		name  string
		nsl   map[string]string
		isNew bool
	}
	nss := []nsCase{}
	for _, ns := range w.Namespaces {
		nss = append(nss, nsCase{ns.Name, w.NsLabels(ns.Name), false})
	}
	for _, ls := range nsLabelSets {
		l := map[string]string{world.MetaName: "newns"}
		for k, v := range ls {
			l[k] = v
		}
		nss = append(nss, nsCase{"newns", l, true})
	}
	// ... and a new one under every name the policies mention that no namespace of the input carries
	mentioned := map[string]bool{}
	for i := range w.NetPols {
		for _, rules := range [][]world.NPRule{w.NetPols[i].Ingress, w.NetPols[i].Egress} {
			for _, ru := range rules {
				for _, p := range ru.Peers {
					if p.NsSel == nil {
						continue
					}
					if v, ok := p.NsSel.ML[world.MetaName]; ok {
						mentioned[v] = true
					}
					for _, e := range p.NsSel.ME {
						if e.Key == world.MetaName {
							for _, v := range e.Vals {
								mentioned[v] = true
							}
						}
					}
				}
			}
		}
	}
	for _, n := range world.SortedKeys(func() map[string]string {
		m := map[string]string{}
		for k := range mentioned {
			m[k] = ""
		}
		return m
	}()) {
		if w.NsByName(n) != nil || n == "newns" {
			continue
		}
		for _, ls := range nsLabelSets {
			l := map[string]string{world.MetaName: n}
			for k, v := range ls {
				l[k] = v
			}
			nss = append(nss, nsCase{n, l, true})
		}
		r.Ev("hypothetical_namespaces_named_by_a_selector", 1)
	}
	anySelectorEntry, anySpecific := false, false
	nviol := 0
	for wi := range w.Workloads {
		wl := &w.Workloads[wi]
		W := refmodel.WorkloadPeer(w, wl)
		name := wl.PeerString()
		for _, ingress := range []bool{true, false} {
			dirName := "egress"
			if ingress {
				dirName = "ingress"
			}
			gov := m.Governing(W, ingress)
			ei := exposed[name]
			prot := true
			var entries []observe.XgressInfo
			if ei != nil {
				if ingress {
					prot, entries = ei.IngressProtected, ei.Ingress
				} else {
					prot, entries = ei.EgressProtected, ei.Egress
				}
			}
			if prop == "C06" {
				r.Ev("protected_flags_checked", 1)
				if !prot {
					r.Ev("unprotected_directions", 1)
				}
				if prot != (len(gov) > 0) {
					r.Violate("c06.flag", "c06.flag:"+dirName+":wrong-protected-flag", fmt.Sprintf("protected=%v (%d governing policies)", len(gov) > 0, len(gov)), fmt.Sprintf("protected=%v", prot), name)
					continue
				}
				if !prot && len(entries) > 0 {
					r.Violate("c06.flag", "c06.flag:"+dirName+":entries-on-unprotected", "no exposure entries for an unprotected direction", fmt.Sprintf("%d entries", len(entries)), name)
				}
			}
			if len(gov) == 0 || !prot {
				continue
			}
			// rule peers of the governing policies, flattened
			type rpeer struct {
				np       *world.NetPol
				rule     *world.NPRule
				peer     *world.NPPeer // nil = rule with empty peer list (everybody)
				omit     bool
				specific bool
			}
			rps := []rpeer{}
			for _, np := range gov {
				rules := np.Egress
				if ingress {
					rules = np.Ingress
				}
				for ri := range rules {
					if len(rules[ri].Peers) == 0 {
						rps = append(rps, rpeer{np: np, rule: &rules[ri]})
						continue
					}
					for pi := range rules[ri].Peers {
						p := &rules[ri].Peers[pi]
						if p.IPBlock != nil {
							continue
						}
						rp := rpeer{np: np, rule: &rules[ri], peer: p}
						nsSel := p.NsSel
						if nsSel == nil {
							nsSel = &world.Sel{ML: map[string]string{world.MetaName: np.Ns}}
						}
						rp.specific = !(p.NsSel != nil && p.NsSel.IsEmpty() && p.PodSel.IsEmpty())
						if onlyEq(p.PodSel) && onlyEq(nsSel) {
							for xi := range w.Workloads {
								x := &w.Workloads[xi]
								if refmodel.Match(p.PodSel, x.Labels) && refmodel.Match(nsSel, w.NsLabels(x.Ns)) {
									rp.omit = true
								}
							}
						}
						if rp.omit {
							r.Ev("omitted_rule_peers", 1)
						}
						rps = append(rps, rp)
					}
				}
			}
			for _, e := range entries {
				r.Ev("entries_judged", 1)
				if e.EntireCluster {
					r.Ev("entire_cluster_entries", 1)
				} else {
					r.Ev("selector_entries", 1)
					anySelectorEntry = true
				}
				if !ingress && len(e.Named) > 0 {
					r.Ev("egress_entries_with_named_ports", 1)
				}
			}
			// memo: (matched rule peers, satisfied entries, port variant) -> verdict already established
			type memoKey struct {
				rules, ents string
				pv          int
			}
			memo := map[memoKey]bool{}
			for _, nsc := range nss {
				for _, pl := range podLabelSets {
					// which rule peers does P match, which entries does it satisfy
					var rk, ek strings.Builder
					for i := range rps {
						rp := &rps[i]
						match := true
						if rp.peer != nil {
							if rp.peer.NsSel != nil {
								match = refmodel.Match(rp.peer.NsSel, nsc.nsl)
							} else {
								match = nsc.name == rp.np.Ns
							}
							if match && rp.peer.PodSel != nil {
								match = refmodel.Match(rp.peer.PodSel, pl)
							}
						}
						if match {
							rk.WriteByte('1')
						} else {
							rk.WriteByte('0')
						}
					}
					for i := range entries {
						e := &entries[i]
						if e.EntireCluster || (refmodel.Match(e.NsSel, nsc.nsl) && refmodel.Match(e.PodSel, pl)) {
							ek.WriteByte('1')
						} else {
							ek.WriteByte('0')
						}
					}
					for pv := range expPortVariants {
						r.Ev("hypothetical_pods", 1)
						key := memoKey{rk.String(), ek.String(), pv}
						if memo[key] {
							continue
						}
						memo[key] = true
						P := refmodel.Peer{Name: "hypothetical", Ns: nsc.name, NsLabels: nsc.nsl, Labels: pl, Ports: expPortVariants[pv]}
						dst := P
						if ingress {
							dst = W
						}
						allowedAll, needCover := refmodel.NewConn(), refmodel.NewConn()
						var fl refmodel.Flags
						throughSpecific := false
						for i := range rps {
							if key.rules[i] != '1' {
								continue
							}
							pc := refmodel.NPPorts(rps[i].rule, dst, &fl)
							allowedAll.Or(pc)
							if !rps[i].omit {
								needCover.Or(pc)
								if rps[i].specific && !pc.IsEmpty() {
									throughSpecific = true
								}
							}
						}
						if throughSpecific {
							anySpecific = true
							r.Ev("pods_allowed_through_specific_rule", 1)
						}
						cover := refmodel.NewConn()
						for i := range entries {
							if key.ents[i] != '1' {
								continue
							}
							e := &entries[i]
							ec := e.Conn.Clone()
							if !ingress { // a named port of an egress entry = that name as declared by the hypothetical pod
								for pr, names := range e.Named {
									for _, n := range names {
										for _, cp := range P.Ports {
											if cp.Name == n && cp.Protocol() == pr {
												ec.AddRange(pr, cp.Num, cp.Num)
											}
										}
									}
								}
							}
							if prop == "C06" && !ec.SubsetOf(allowedAll) {
								nviol++
								if nviol <= 3 {
									pr, port, _ := refmodel.FirstDiff(ec, refmodel.NewConn().Or(ec).And(allowedAll))
									r.Violate("c06.sound", "c06.sound:"+dirName+":unrealizable-entry", "the workload's "+dirName+" policies allow at least the entry's connections with every pod satisfying its selectors: "+allowedAll.String(),
										"entry "+entryStr(e)+" claims "+ec.String(), fmt.Sprintf("%s %s ; hypothetical pod ns=%s nsLabels=%v labels=%v ports=%v ; first point %s/%d", name, dirName, nsc.name, nsc.nsl, pl, P.Ports, pr, port))
								}
							}
							cover.Or(ec)
						}
						if prop == "C07" {
							r.Ev("points_needing_cover_checked", int64(needCover.P[0].Count()+needCover.P[1].Count()+needCover.P[2].Count()))
							if pv < 2 {
								for _, cp := range P.Ports {
									if needCover.Has(cp.Protocol(), cp.Num) {
										r.Ev("named_port_points_needing_cover", 1)
									}
								}
							}
							if !needCover.SubsetOf(cover) {
								nviol++
								if nviol <= 3 {
									miss := needCover.Clone().AndNot(cover)
									pr, port, _ := refmodel.FirstDiff(miss, refmodel.NewConn())
									named := "numeric"
									for _, cp := range P.Ports {
										if cp.Num == port && cp.Protocol() == pr {
											named = "named-port"
										}
									}
									ents := []string{}
									for i := range entries {
										ents = append(ents, entryStr(&entries[i]))
									}
									sort.Strings(ents)
									r.Violate("c07.complete", "c07.complete:"+dirName+":uncovered-"+named, "every allowed connection covered by entire-cluster exposure or an entry the pod satisfies; allowed (non-omitted): "+needCover.String(),
										"covered only: "+cover.String()+" ; missing e.g. "+fmt.Sprintf("%s/%d", pr, port), fmt.Sprintf("%s %s ; hypothetical pod ns=%s nsLabels=%v labels=%v ports=%v ; entries: %s", name, dirName, nsc.name, nsc.nsl, pl, P.Ports, strings.Join(ents, " | ")))
								}
							}
						}
					}
				}
			}
		}
	}
	r.Effective = len(exp.Exposed) > 0
	if prop == "C06" {
		r.NonTrivial = anySelectorEntry
	} else {
		r.NonTrivial = anySpecific
	}
	if c.Idx%53 == 0 || len(r.Violations) > 0 {
		lines := []string{}
		for _, e := range exp.Exposed {
			lines = append(lines, fmt.Sprintf("%s ingressProtected=%v egressProtected=%v", e.Peer, e.IngressProtected, e.EgressProtected))
			for i := range e.Ingress {
				lines = append(lines, "  <= "+entryStr(&e.Ingress[i]))
			}
			for i := range e.Egress {
				lines = append(lines, "  => "+entryStr(&e.Egress[i]))
			}
		}
		r.SetSample(map[string]interface{}{"input_yaml": shortWorld(w), "exposure": lines})
	}
}

func entryStr(e *observe.XgressInfo) string {
	who := "entire-cluster"
	if !e.EntireCluster {
		who = "ns" + world.SelYAML(e.NsSel) + " pod" + world.SelYAML(e.PodSel)
	}
	return who + " : " + e.ConnStr
}
