package checks

import (
	"fmt"
	"sort"
	"strings"

	"verif/harness/internal/observe"
	"verif/harness/internal/rng"
	"verif/harness/internal/run"
	"verif/harness/internal/world"
)

func init() {
	run.Register(&run.Check{
		ID:    "C08",
		Level: "exploration",
		Rule: "cases: first a sample of the repository's own manifest directories (3 repetitions x all outputs + the binary), then one generated resource set per case (NetworkPolicy worlds with many shared selectors, ANP/BANP worlds, Ingress/Route worlds, a large profile with up to 14 workloads and 10 policies) written in V layout variants (canonical file; documents shuffled into one file; one file per document with random names; random nested grouping; NetworkPolicy rules and peers permuted) and analysed R times per variant in fresh analyzers, for list txt/json/csv/md/dot x exposure off/on and diff txt/csv/md/dot against a second world; a slice is also run through the binary (fresh process, fresh hash seed); " +
			"plus a light stream of many more resource sets (list txt, and with exposure txt/json and one of dot/md/csv in rotation, two layouts - in every other case the second one with rules and peers permuted -, three fresh analyses each; 30% with an isolated namespace whose connection-less workloads and representative peers must be grouped the same way every time; 8% of the NetworkPolicy worlds hold the dumped pods of a StatefulSet, each with its own pod-name / pod-index label, and a policy selecting one replica by it - rejected or analysed, but the same way every time); oracle: byte equality of every output with the first one of its kind; the number of distinct internal iteration orders actually seen (order of the returned []Peer slice) is measured per input; " +
			"non-trivial = at least 3 workload peers and a non-empty report (the number of inputs for which more than one internal iteration order was actually observed is reported as an event, not demanded: an implementation that sorts its peers has only one); distinct = world hash",
		Assumptions:       []string{"values inside one selector and ports inside one rule are not permuted (the statement names documents, files, rules and peers)", "each semantic selector has one spelling per world except in the committed witness of finding C08-selector-spelling"},
		NumCases:          func(tier string, _ int64) int { return tierN(tier, 76+1500, 470+30000) },
		Run:               runC08,
		MinNonTrivial:     25,
		MinEffectiveShare: 0.5,
		RequiredEvents: map[string]int64{"outputs_compared": 5000, "bytes_compared": 1000000, "exposure_outputs_compared": 1000,
			"diff_outputs_compared": 500, "binary_outputs_compared": 20, "variant_rules_permuted": 30, "variant_perdoc": 30, "light_inputs": 1000},
	})
}

type c08Variant struct {
	name   string
	w      *world.World
	layout string
	seeded bool
}

func c08Outputs(r *run.CaseResult, dir, dirB string, exposureOK bool, sink func(key, out string, exposure bool, isDiff bool)) string {
	order := ""
	for _, exp := range []bool{false, true} {
		if exp && !exposureOK {
			continue
		}
		for _, f := range []string{"txt", "json", "csv", "md", "dot"} {
			res := observe.List(dir, observe.ListOpts{Format: f, Exposure: exp})
			out := res.Output
			switch {
			case res.Panic != "":
				out = "PANIC"
				r.Violate("c08.total", "c08.total:any:panic", "a result or an error", "panic: "+res.Panic, "")
			case res.HasErr || res.OutErr != "":
				out = "ERROR"
			}
			sink(fmt.Sprintf("list/%s/exposure=%v", f, exp), out, exp, false)
			if !exp && f == "txt" {
				names := []string{}
				for _, p := range res.Peers {
					if !p.IsIP {
						names = append(names, p.Str)
					}
				}
				order = strings.Join(names, ",")
			}
		}
	}
	for _, f := range []string{"txt", "csv", "md", "dot"} {
		d := observe.Diff(dir, dirB, observe.DiffOpts{Format: f, Names: [2]string{"dir1", "dir2"}})
		out := d.Output
		switch {
		case d.Panic != "":
			out = "PANIC"
			r.Violate("c08.total", "c08.total:any:panic", "a result or an error", "panic: "+d.Panic, "")
		case d.HasErr || d.OutErr != "":
			out = "ERROR"
		}
		sink("diff/"+f, out, false, true)
	}
	return order
}

func c08World(g *rng.R, fam int) (*world.World, string) {
	cfg := world.DefaultCfg()
	cfg.KindTwins, cfg.SharedNames = 0.2, 0.2
	cfg.NamedEgressIP = 0
	cfg.UnusedNsPolicy = 0
	switch fam {
	case 0:
		cfg.MinNetPols, cfg.MaxNetPols = 2, 6
		w := world.GenNPWorld(g, cfg)
		if g.P(0.5) {
			world.AddCanonStress(g, w)
		}
		if g.P(0.3) {
			world.AddIsolatedNamespace(g, w)
		}
		if g.P(0.08) { // the dumped pods of a StatefulSet, each with its own pod-name label, and a policy selecting one of them by it
			key := rng.Pick(g, []string{"statefulset.kubernetes.io/pod-name", "apps.kubernetes.io/pod-index"})
			ns := w.Workloads[0].Ns
			w.Workloads = append(w.Workloads, world.Workload{Ns: ns, Name: "sts", Kind: world.KOwnedPods, OwnerKind: world.KStatefulSet, NPods: 3,
				Labels: map[string]string{"app": "sts"}, PerPodLabel: key, Ports: []world.CPort{{Num: 8080, Proto: "TCP"}}})
			w.NetPols = append(w.NetPols, world.NetPol{Ns: ns, Name: "one-replica", PodSel: world.Sel{ML: map[string]string{key: fmt.Sprintf("sts-x%d", g.Intn(3))}},
				HasTypes: true, PolicyTypes: []string{"Ingress"}, Ingress: []world.NPRule{{Ports: []world.NPPort{{Port: 8080}}}}})
			w.AddFeature("perPodLabelOnOwnedPods")
		}
		return w, "np"
	case 1:
		return world.GenPrecedenceWorld(g, cfg), "anp"
	case 2:
		w := world.GenNPWorld(g, cfg)
		world.GenIngressResources(g, w)
		return w, "ingress"
	default:
		cfg.MinWorkloads, cfg.MaxWorkloads = 9, 14
		cfg.MinNetPols, cfg.MaxNetPols = 5, 10
		cfg.Kinds = world.AllWorkloadKinds
		return world.GenNPWorld(g, cfg), "large"
	}
}

func runC08(c *run.Ctx) {
	r := c.Res
	g := c.R("world")
	if c.Idx == 0 {
		runC08Witness(c)
		return
	}
	nf := 12
	heavy := 76
	if c.Tier == "thorough" {
		nf = 70
		heavy = 470
	}
	if c.Idx >= heavy { // light stream: many more resource sets, three fresh analyses each of the outputs most sensitive to map order
		runC08Light(c)
		return
	}
	if c.Idx <= nf { // the repository's own manifest directories: repetitions in fresh analyzers and fresh processes
		runC08Fixture(c, c.Idx-1)
		return
	}
	w, fam := c08World(g, c.Idx%4)
	world.UnifySpellings(w)
	r.Feat("family_" + fam)
	r.Hash = w.Hash()
	cfg := world.DefaultCfg()
	cfg.NamedEgressIP = 0
	w2 := w
	if c.Idx%2 == 1 { // the same connection moves between two address blocks: removed + added entries with equal connections
		if nw, ok := world.MoveCIDR(g, w2); ok {
			w2 = nw
			r.Ev("diff_partner_with_moved_cidr", 1)
		}
	}
	for n := 2; n > 0 && (c.Idx%2 == 0 || g.P(0.3)); n-- {
		if nw, _ := world.Mutate(g, w2, cfg); nw != nil {
			w2 = nw
		}
	}
	dirB := c.Dir("B")
	if err := w2.Write(dirB, nil); err != nil {
		r.Discarded = err.Error()
		return
	}
	V, R := 4, 3
	if c.Tier == "thorough" {
		V, R = 6, 5
	}
	variants := []c08Variant{{"canonical", w, world.LayoutCanonial, false}, {"shuffled-onefile", w, world.LayoutOneFile, true},
		{"perdoc", w, world.LayoutPerDoc, true}, {"rules-permuted", world.PermuteUnordered(g, w), world.LayoutRandom, true},
		{"nested", w, world.LayoutNested, true}, {"rules-permuted-perdoc", world.PermuteUnordered(g, w), world.LayoutPerDoc, true}}[:V]
	compareRuns(c, w, variants, R, dirB, len(w.ANPs) == 0 && w.BANP == nil, "c08.bytes", "generated")
}

func compareRuns(c *run.Ctx, w *world.World, variants []c08Variant, R int, dirB string, exposureOK bool, monitor, pattern string) {
	r := c.Res
	first := map[string]string{}
	firstFrom := map[string]string{}
	orders := map[string]bool{}
	reported := map[string]bool{}
	nonEmpty := false
	for vi, v := range variants {
		dir := c.Dir(fmt.Sprintf("v%d-%s", vi, v.name))
		var lr *rng.R
		if v.seeded {
			lr = c.R("layout-" + v.name)
		}
		if err := world.WriteDocs(dir, v.w.Docs(), v.layout, lr); err != nil {
			r.Discarded = err.Error()
			return
		}
		r.Ev("variant_"+strings.ReplaceAll(strings.Split(v.name, "-")[0], "shuffled", "shuffled"), 1)
		if strings.HasPrefix(v.name, "rules") {
			r.Ev("variant_rules_permuted", 1)
		}
		for rep := 0; rep < R; rep++ {
			from := fmt.Sprintf("%s#%d", v.name, rep)
			ord := c08Outputs(r, dir, dirB, exposureOK, func(key, out string, exposure, isDiff bool) {
				r.Ev("outputs_compared", 1)
				r.Ev("bytes_compared", int64(len(out)))
				if exposure {
					r.Ev("exposure_outputs_compared", 1)
				}
				if isDiff {
					r.Ev("diff_outputs_compared", 1)
				}
				if len(out) > 10 && out != "ERROR" {
					nonEmpty = true
				}
				if prev, ok := first[key]; !ok {
					first[key], firstFrom[key] = out, from
				} else if prev != out && !reported[key] {
					reported[key] = true
					shape := "differs"
					if strings.Contains(key, "exposure=true") {
						shape = "exposure-differs"
					}
					r.Violate(monitor, monitor+":"+pattern+":"+shape, "byte-identical "+key+" output for the same resource set", firstDiffText(prev, out), firstFrom[key]+" vs "+from)
				}
			})
			orders[ord] = true
		}
	}
	// a slice through the binary: fresh process, fresh hash seed
	if c.Idx%3 == 1 && len(variants) > 2 {
		for _, vi := range []int{0, 2} {
			dir := c.Dir(fmt.Sprintf("v%d-%s", vi, variants[vi].name))
			for _, exp := range []bool{false, true} {
				if exp && !exposureOK {
					continue
				}
				args := []string{"list", "--dirpath", dir, "-q", "-o", "txt"}
				if exp {
					args = append(args, "--exposure")
				}
				cli := observe.RunCLI(c.Bin, c.Scratch(), args...)
				key := fmt.Sprintf("list/txt/exposure=%v", exp)
				want := first[key]
				r.Ev("binary_outputs_compared", 1)
				if want == "ERROR" {
					if cli.Exit == 0 {
						r.Violate(monitor, monitor+":"+pattern+":binary-exit", "non-zero exit as in the library runs", "exit 0", key)
					}
				} else if cli.Stdout != want {
					r.Violate(monitor, monitor+":"+pattern+":binary-differs", "binary stdout identical to every library run", firstDiffText(want, cli.Stdout), key+" variant "+variants[vi].name)
				}
			}
		}
	}
	nw := 0
	if w != nil {
		nw = len(w.Workloads)
	}
	r.AddSet("iteration_orders_seen", fmt.Sprintf("%d", len(orders)))
	if len(orders) > 1 {
		r.Ev("inputs_with_several_iteration_orders", 1)
		r.Ev("distinct_iteration_orders", int64(len(orders)))
	} else if nw >= 3 {
		r.Ev("inputs_with_3plus_peers_but_one_order_seen", 1)
	}
	r.Effective = nonEmpty
	r.NonTrivial = nonEmpty && nw >= 3
	if c.Idx%13 == 0 || len(r.Violations) > 0 {
		keys := []string{}
		for k := range first {
			keys = append(keys, k)
		}
		sort.Strings(keys)
		s := map[string]interface{}{"outputs": keys, "distinct_iteration_orders": len(orders), "list_txt": first["list/txt/exposure=false"]}
		if w != nil {
			s["input_yaml"] = shortWorld(w)
		}
		r.SetSample(s)
	}
}

// witness of the selector-spelling finding: the same semantic selector spelled in two ways in two policies
func c08WitnessWorld() *world.World {
	w := &world.World{
		Namespaces: []world.Namespace{{Name: "ns1", HasObj: true, Labels: map[string]string{"env": "a"}}},
		Workloads:  []world.Workload{{Ns: "ns1", Name: "w0", Kind: world.KDeployment, Labels: map[string]string{"app": "a"}}, {Ns: "ns1", Name: "w1", Kind: world.KDeployment, Labels: map[string]string{"app": "b"}}},
	}
	sel1 := &world.Sel{ML: map[string]string{"tier": "c"}}
	sel2 := &world.Sel{ME: []world.Req{{Key: "tier", Op: "In", Vals: []string{"c"}}}}
	w.NetPols = []world.NetPol{
		{Ns: "ns1", Name: "np-a", PodSel: world.Sel{ML: map[string]string{"app": "a"}}, Ingress: []world.NPRule{{Peers: []world.NPPeer{{PodSel: sel1, NsSel: &world.Sel{}}}, Ports: []world.NPPort{{Port: 80}}}}},
		{Ns: "ns1", Name: "np-b", PodSel: world.Sel{ML: map[string]string{"app": "b"}}, Ingress: []world.NPRule{{Peers: []world.NPPeer{{PodSel: sel2, NsSel: &world.Sel{}}}, Ports: []world.NPPort{{Port: 81}}}}},
	}
	return w
}

func runC08Witness(c *run.Ctx) {
	r := c.Res
	r.Name = "witness C08-selector-spelling"
	w := c08WitnessWorld()
	rev := w.Clone()
	rev.NetPols[0], rev.NetPols[1] = rev.NetPols[1], rev.NetPols[0]
	r.Hash = "witness"
	dirB := c.Dir("B")
	_ = w.Write(dirB, nil)
	variants := []c08Variant{{"np-a-first", w, world.LayoutCanonial, false}, {"np-b-first", rev, world.LayoutCanonial, false}}
	compareRuns(c, w, variants, 2, dirB, true, "c08.bytes", "mixed-selector-spelling")
}

func runC08Fixture(c *run.Ctx, k int) {
	r := c.Res
	dir := fixtureAt(c.Repo, "quick", k*5)
	dirB := fixtureAt(c.Repo, "quick", k*5+1)
	if dir == "" {
		r.Discarded = "no fixtures"
		return
	}
	r.Name = "fixture " + dir
	r.Hash = r.Name
	r.Ev("fixture_inputs", 1)
	first := map[string]string{}
	orders := map[string]bool{}
	nonEmpty := false
	for rep := 0; rep < 3; rep++ {
		ord := c08Outputs(r, dir, dirB, true, func(key, out string, exposure, isDiff bool) {
			r.Ev("outputs_compared", 1)
			r.Ev("bytes_compared", int64(len(out)))
			if exposure {
				r.Ev("exposure_outputs_compared", 1)
			}
			if isDiff {
				r.Ev("diff_outputs_compared", 1)
			}
			if len(out) > 10 && out != "ERROR" {
				nonEmpty = true
			}
			if prev, ok := first[key]; !ok {
				first[key] = out
			} else if prev != out {
				r.Violate("c08.bytes", "c08.bytes:fixture:differs", "byte-identical "+key+" output on every run", firstDiffText(prev, out), dir)
			}
		})
		orders[ord] = true
	}
	for _, exp := range []bool{false, true} {
		args := []string{"list", "--dirpath", dir, "-q", "-o", "txt"}
		if exp {
			args = append(args, "--exposure")
		}
		cli := observe.RunCLI(c.Bin, c.Scratch(), args...)
		want := first[fmt.Sprintf("list/txt/exposure=%v", exp)]
		r.Ev("binary_outputs_compared", 1)
		if want != "ERROR" && cli.Stdout != want {
			r.Violate("c08.bytes", "c08.bytes:fixture:binary-differs", "binary stdout identical to the library runs", firstDiffText(want, cli.Stdout), dir)
		}
	}
	if len(orders) > 1 {
		r.Ev("inputs_with_several_iteration_orders", 1)
	}
	r.Effective = nonEmpty
	r.NonTrivial = nonEmpty
}

// runC08Light: one generated resource set, list txt/json with and without exposure, three fresh analyses each, written once in
// canonical layout and once shuffled per document.
func runC08Light(c *run.Ctx) {
	r := c.Res
	g := c.R("light")
	w, fam := c08World(g, g.Intn(3)*0) // NetworkPolicy family (exposure capable)
	admin := c.Idx%6 == 5
	if admin {
		// every sixth case: an admin-policy world (no exposure runs), its second copy always with the peers and the ports inside each
		// rule permuted - the order of the entries of one ports list means nothing
		w, fam = c08World(c.R("light-admin"), 1)
		r.Ev("light_admin_policy_inputs", 1)
	}
	if g.P(0.6) {
		world.AddCanonStress(g, w)
	}
	if g.P(0.15) {
		world.GenIngressResources(g, w) // exposure analysis with the synthetic ingress controller among the peers
	}
	world.UnifySpellings(w)
	r.Feat(w.Features...)
	r.Feat("light_" + fam)
	r.Hash = "light/" + w.Hash()
	r.Ev("light_inputs", 1)
	dirs := []string{c.Dir("canonical"), c.Dir("perdoc")}
	w2 := w
	if c.Idx%2 == 1 || admin { // every other case: the second copy also has its NetworkPolicy rules and the peers inside each rule permuted
		w2 = world.PermuteUnordered(c.R("permute"), w)
		r.Feat("light_rules_and_peers_permuted")
	}
	if w.Write(dirs[0], nil) != nil || world.WriteDocs(dirs[1], w2.Docs(), world.LayoutPerDoc, c.R("layout")) != nil {
		r.Discarded = "emit"
		return
	}
	first := map[string]string{}
	nonEmpty := false
	orders := map[string]bool{}
	extra := []string{"dot", "md", "csv", "dot"}[c.Idx%4] // one more exposure formatter per case, in rotation
	r.Feat("light_exposure_" + extra)
	for rep := 0; rep < 3; rep++ {
		for _, dir := range dirs {
			for _, exp := range []bool{false, true} {
				for _, f := range []string{"txt", "json", extra} {
					if !exp && f != "txt" && !admin {
						continue
					}
					if exp && admin {
						continue
					}
					res := observe.List(dir, observe.ListOpts{Format: f, Exposure: exp})
					out := res.Output
					if res.Panic != "" || res.HasErr || res.OutErr != "" {
						out = "ERROR"
					}
					key := fmt.Sprintf("list/%s/exposure=%v", f, exp)
					r.Ev("outputs_compared", 1)
					r.Ev("bytes_compared", int64(len(out)))
					if exp {
						r.Ev("exposure_outputs_compared", 1)
					}
					if len(out) > 10 && out != "ERROR" {
						nonEmpty = true
					}
					if !exp && f == "txt" {
						names := []string{}
						for _, p := range res.Peers {
							if !p.IsIP {
								names = append(names, p.Str)
							}
						}
						orders[strings.Join(names, ",")] = true
					}
					if prev, ok := first[key]; !ok {
						first[key] = out
					} else if prev != out {
						shape := "differs"
						if exp {
							shape = "exposure-differs"
						}
						r.Violate("c08.bytes", "c08.bytes:generated:"+shape, "byte-identical "+key+" output for the same resource set", firstDiffText(prev, out), fmt.Sprintf("rep %d dir %s", rep, dir))
						return
					}
				}
			}
		}
	}
	if len(orders) > 1 {
		r.Ev("inputs_with_several_iteration_orders", 1)
	}
	r.Effective = nonEmpty
	r.NonTrivial = nonEmpty && len(w.Workloads) >= 3
}
