package checks

import (
	"encoding/csv"
	"encoding/json"
	"fmt"
	"regexp"
	"sort"
	"strconv"
	"strings"

	"verif/harness/internal/observe"
	"verif/harness/internal/refmodel"
	"verif/harness/internal/rng"
	"verif/harness/internal/run"
	"verif/harness/internal/world"
)

func init() {
	run.Register(&run.Check{
		ID:    "C09",
		Level: "exploration",
		Rule: "cases: analysis results with every shape that stresses a formatter (multi-protocol multi-range port sets, All/No connections, address ranges on either side, {ingress-controller} lines, exposure entries of all selector shapes incl. expressions and named ports, unprotected workloads; diff entries of all four types with new/lost annotations on src, dst and both) - the 212 manifest directories shipped with the repository (with and without exposure) first, then three generated families by index: NetworkPolicy worlds with exposure, NetworkPolicy/ANP worlds with Ingress/Route resources, world pairs for diff; " +
			"each result is rendered by the real formatters in every format (list txt/json/csv/md/dot, diff txt/csv/md/dot) and parsed back by five + four small parsers of ours; oracle: the parsed sets of tuples (src, dst, connection denotation [+ named ports]; exposure: direction, workload, peer, connection; diff: type, src, dst, both connections, new/lost annotations) must be equal across formats and equal to the tuples read from the API result ([]Peer2PeerConnection, ExposedPeers(), ConnectivityDiff); order and whitespace are not compared; " +
			"non-trivial = the result has at least 3 tuples including a partial (non-All) connection, and for exposure/diff families at least one exposure entry / one non-unchanged diff entry; distinct = world hash + family",
		Assumptions:       []string{"connection strings are parsed back into (protocol, port) sets, so spelling conventions of ranges are not part of the oracle", "dot node ids `<pod>_in_<namespace>` are mapped back to the textual `<namespace>/[<pod>]` names; dot encodes address exposure lines only in the base relation", "the selector -> peer-name rendering of exposure entries is checked for consistency across formats and for mentioning every key and value of the API entry's selectors"},
		NumCases:          func(tier string, _ int64) int { return tierN(tier, 600, 25000) + 2*nFix(tier) },
		Run:               runC09,
		MinNonTrivial:     150,
		MinEffectiveShare: 0.6,
		RequiredEvents: map[string]int64{"formats_parsed": 2000, "tuples_compared": 30000, "exposure_tuples_compared": 3000, "diff_tuples_compared": 3000, "ingress_controller_tuples": 50,
			"tuples_with_named_ports": 30, "diff_entries_with_annotation": 100, "multi_range_connections": 200},
	})
}

type tuple struct {
	Section  string // base | ingress | egress | added | removed | changed | unchanged
	Src, Dst string
	Conn     string // canonical denotation: our printer over the parsed set + named ports
	Conn2    string // diff only
	Info     string // diff only: "src", "dst", "src+dst" or ""
}

func (t tuple) key() string {
	return strings.Join([]string{t.Section, t.Src, t.Dst, t.Conn, t.Conn2, t.Info}, " §§ ")
}

// parseConnStr parses "All Connections" | "No Connections" | "SCTP 1,TCP 80-81,http,UDP 53" into a canonical denotation string.
func parseConnStr(s string) (string, bool) {
	s = strings.TrimSpace(s)
	switch s {
	case "All Connections":
		return refmodel.FullConn().String(), true
	case "No Connections":
		return refmodel.NewConn().String(), true
	}
	c := refmodel.NewConn()
	named := map[string][]string{}
	cur := ""
	for _, tok := range strings.Split(s, ",") {
		tok = strings.TrimSpace(tok)
		if i := strings.IndexByte(tok, ' '); i > 0 {
			cur, tok = tok[:i], tok[i+1:]
		}
		if refmodel.ProtoIdx(cur) < 0 || cur == "" || tok == "" {
			return "", false
		}
		if j := strings.IndexByte(tok, '-'); j > 0 {
			a, e1 := strconv.Atoi(tok[:j])
			b, e2 := strconv.Atoi(tok[j+1:])
			if e1 == nil && e2 == nil {
				c.AddRange(cur, a, b)
				continue
			}
		}
		if a, err := strconv.Atoi(tok); err == nil {
			c.AddRange(cur, a, a)
		} else {
			named[cur] = append(named[cur], tok)
		}
	}
	return canonConn(c, named), true
}

func canonConn(c *refmodel.Conn, named map[string][]string) string {
	out := c.String()
	prs := []string{}
	for pr := range named {
		prs = append(prs, pr)
	}
	sort.Strings(prs)
	for _, pr := range prs {
		ns := append([]string(nil), named[pr]...)
		sort.Strings(ns)
		if len(ns) > 0 {
			out += " +" + pr + ":" + strings.Join(ns, "/")
		}
	}
	return out
}

// ---- list parsers

func parseListTxt(out string) ([]tuple, []string, error) {
	ts := []tuple{}
	unprot := []string{}
	section := "base"
	for _, line := range strings.Split(out, "\n") {
		line = strings.TrimRight(line, "\r")
		switch strings.TrimSpace(line) {
		case "", "Exposure Analysis Result:":
			continue
		case "Egress Exposure:":
			section = "egress"
			continue
		case "Ingress Exposure:":
			section = "ingress"
			continue
		case "Workloads not protected by network policies:":
			section = "unprotected"
			continue
		}
		if section == "unprotected" {
			unprot = append(unprot, strings.TrimSpace(line))
			continue
		}
		i := strings.LastIndex(line, " : ")
		if i < 0 {
			return nil, nil, fmt.Errorf("txt line without ' : ': %q", line)
		}
		conn, ok := parseConnStr(line[i+3:])
		if !ok {
			return nil, nil, fmt.Errorf("txt connection unparsable: %q", line)
		}
		left := line[:i]
		var a, b string
		switch {
		case section == "base":
			j := strings.Index(left, " => ")
			if j < 0 {
				return nil, nil, fmt.Errorf("txt base line without ' => ': %q", line)
			}
			a, b = left[:j], left[j+4:]
		case strings.Contains(left, "\t=> \t"):
			j := strings.Index(left, "\t=> \t")
			a, b = strings.TrimSpace(left[:j]), left[j+5:]
		case strings.Contains(left, "\t<= \t"):
			j := strings.Index(left, "\t<= \t")
			b, a = strings.TrimSpace(left[:j]), left[j+5:] // dst-first
		default:
			return nil, nil, fmt.Errorf("txt exposure line without arrow: %q", line)
		}
		ts = append(ts, tuple{Section: section, Src: a, Dst: b, Conn: conn})
	}
	return ts, unprot, nil
}

func parseListJSON(out string, exposure bool) ([]tuple, error) {
	type item struct {
		Src  string `json:"src"`
		Dst  string `json:"dst"`
		Conn string `json:"conn"`
	}
	ts := []tuple{}
	add := func(section string, items []item) error {
		for _, it := range items {
			c, ok := parseConnStr(it.Conn)
			if !ok {
				return fmt.Errorf("json connection unparsable: %q", it.Conn)
			}
			ts = append(ts, tuple{Section: section, Src: it.Src, Dst: it.Dst, Conn: c})
		}
		return nil
	}
	if !exposure {
		var items []item
		if err := json.Unmarshal([]byte(out), &items); err != nil {
			return nil, err
		}
		return ts, add("base", items)
	}
	var doc struct {
		Conns []item `json:"connlist_results"`
		Exp   struct {
			Egress  []item `json:"egress_exposure"`
			Ingress []item `json:"ingress_exposure"`
		} `json:"exposure_results"`
	}
	if err := json.Unmarshal([]byte(out), &doc); err != nil {
		return nil, err
	}
	if err := add("base", doc.Conns); err != nil {
		return nil, err
	}
	if err := add("egress", doc.Exp.Egress); err != nil {
		return nil, err
	}
	return ts, add("ingress", doc.Exp.Ingress)
}

func parseListCSV(out string) ([]tuple, error) {
	rd := csv.NewReader(strings.NewReader(out))
	rd.FieldsPerRecord = -1
	recs, err := rd.ReadAll()
	if err != nil {
		return nil, err
	}
	ts := []tuple{}
	section := "base"
	dstFirst := false
	for _, rec := range recs {
		if len(rec) < 3 {
			return nil, fmt.Errorf("csv record with %d fields: %v", len(rec), rec)
		}
		switch {
		case rec[0] == "src" && rec[1] == "dst":
			dstFirst = false
			continue
		case rec[0] == "dst" && rec[1] == "src":
			dstFirst = true
			continue
		case rec[0] == "Exposure Analysis Result:":
			continue
		case rec[0] == "Egress Exposure:":
			section = "egress"
			continue
		case rec[0] == "Ingress Exposure:":
			section = "ingress"
			continue
		}
		c, ok := parseConnStr(rec[2])
		if !ok {
			return nil, fmt.Errorf("csv connection unparsable: %q", rec[2])
		}
		a, b := rec[0], rec[1]
		if dstFirst {
			a, b = b, a
		}
		ts = append(ts, tuple{Section: section, Src: a, Dst: b, Conn: c})
	}
	return ts, nil
}

func parseListMD(out string) ([]tuple, error) {
	ts := []tuple{}
	section := "base"
	dstFirst := false
	for _, line := range strings.Split(out, "\n") {
		line = strings.TrimSpace(line)
		switch {
		case line == "" || strings.HasPrefix(line, "|---") || line == "## Exposure Analysis Result:":
			continue
		case line == "### Egress Exposure:":
			section = "egress"
			continue
		case line == "### Ingress Exposure:":
			section = "ingress"
			continue
		}
		if !strings.HasPrefix(line, "| ") || !strings.HasSuffix(line, " |") {
			return nil, fmt.Errorf("md line not a table row: %q", line)
		}
		f := strings.Split(line[2:len(line)-2], " | ")
		if len(f) != 3 {
			return nil, fmt.Errorf("md row with %d cells: %q", len(f), line)
		}
		if f[0] == "src" && f[1] == "dst" {
			dstFirst = false
			continue
		}
		if f[0] == "dst" && f[1] == "src" {
			dstFirst = true
			continue
		}
		c, ok := parseConnStr(f[2])
		if !ok {
			return nil, fmt.Errorf("md connection unparsable: %q", f[2])
		}
		a, b := f[0], f[1]
		if dstFirst {
			a, b = b, a
		}
		ts = append(ts, tuple{Section: section, Src: a, Dst: b, Conn: c})
	}
	return ts, nil
}

var dotEdgeRe = regexp.MustCompile(`^\t("(?:[^"\\]|\\.)*") -> ("(?:[^"\\]|\\.)*") \[label=("(?:[^"\\]|\\.)*") color="([^"]*)" fontcolor="([^"]*)" weight=([0-9.]+)( style=dashed)?\]$`)
var dotNodeRe = regexp.MustCompile(`^\t+("(?:[^"\\]|\\.)*") \[label=("(?:[^"\\]|\\.)*") color="([^"]*)" fontcolor="([^"]*)"( shape=diamond)?\]$`)

// dotNodeName maps a dot node id back to the textual peer name.
func dotNodeName(id string) string {
	if i := strings.LastIndex(id, "_in_"); i > 0 && (strings.HasPrefix(id, "pod with ") || strings.HasPrefix(id, "all pods")) {
		pod, ns := id[:i], id[i+4:]
		if strings.ContainsAny(ns, " {") {
			ns = "[" + ns + "]"
		}
		return ns + "/[" + pod + "]"
	}
	return id
}

func parseListDot(out string) ([]tuple, map[string]string, error) {
	ts := []tuple{}
	nodes := map[string]string{}
	for _, line := range strings.Split(out, "\n") {
		if m := dotEdgeRe.FindStringSubmatch(line); m != nil {
			a, e1 := strconv.Unquote(m[1])
			b, e2 := strconv.Unquote(m[2])
			l, e3 := strconv.Unquote(m[3])
			if e1 != nil || e2 != nil || e3 != nil {
				return nil, nil, fmt.Errorf("dot edge unquotable: %q", line)
			}
			c, ok := parseConnStr(l)
			if !ok {
				return nil, nil, fmt.Errorf("dot edge label unparsable: %q", line)
			}
			section := "base"
			if m[7] != "" {
				switch m[4] {
				case "darkorange2":
					section = "ingress"
				case "darkorange4":
					section = "egress"
				default:
					return nil, nil, fmt.Errorf("dashed edge with unknown colour: %q", line)
				}
			}
			ts = append(ts, tuple{Section: section, Src: dotNodeName(a), Dst: dotNodeName(b), Conn: c})
			continue
		}
		if m := dotNodeRe.FindStringSubmatch(line); m != nil {
			id, _ := strconv.Unquote(m[1])
			nodes[id] = m[3]
			continue
		}
		t := strings.TrimSpace(line)
		if strings.Contains(t, " -> ") {
			return nil, nil, fmt.Errorf("dot edge line not understood: %q", line)
		}
	}
	return ts, nodes, nil
}

// ---- diff parsers

func diffInfoOf(info, src, dst, typ string) (string, bool) {
	info = strings.TrimSpace(info)
	if info == "" {
		return "", true
	}
	suffix := " " + typ
	if !strings.HasPrefix(info, "workload ") && !strings.HasPrefix(info, "workloads ") || !strings.HasSuffix(info, suffix) {
		return "", false
	}
	body := strings.TrimSuffix(strings.TrimPrefix(strings.TrimPrefix(info, "workloads "), "workload "), suffix)
	switch body {
	case src + " and " + dst:
		return "src+dst", true
	case src:
		if src == dst {
			return "", false
		}
		return "src", true
	case dst:
		return "dst", true
	}
	return "", false
}

func mkDiffTuple(typ, src, dst, c1s, c2s, info string) (tuple, error) {
	c1, ok1 := parseConnStr(c1s)
	c2, ok2 := parseConnStr(c2s)
	if !ok1 || !ok2 {
		return tuple{}, fmt.Errorf("diff connections unparsable: %q / %q", c1s, c2s)
	}
	inf, ok := diffInfoOf(info, src, dst, typ)
	if !ok {
		return tuple{}, fmt.Errorf("workloads-diff-info not understood: %q (src %q dst %q type %s)", info, src, dst, typ)
	}
	return tuple{Section: typ, Src: src, Dst: dst, Conn: c1, Conn2: c2, Info: inf}, nil
}

var diffTxtRe = regexp.MustCompile(`^diff-type: (\w+), source: (.*), destination: (.*), dir1: (.*), dir2: (.*?)(?:, workloads-diff-info: (.*))?$`)

func parseDiffTxt(out string) ([]tuple, error) {
	ts := []tuple{}
	for _, line := range strings.Split(out, "\n") {
		line = strings.TrimSpace(line)
		if line == "" || line == "Connectivity diff:" {
			continue
		}
		m := diffTxtRe.FindStringSubmatch(line)
		if m == nil {
			return nil, fmt.Errorf("diff txt line not understood: %q", line)
		}
		t, err := mkDiffTuple(m[1], m[2], m[3], m[4], m[5], m[6])
		if err != nil {
			return nil, err
		}
		ts = append(ts, t)
	}
	return ts, nil
}

func parseDiffCSV(out string) ([]tuple, error) {
	rd := csv.NewReader(strings.NewReader(out))
	rd.FieldsPerRecord = -1
	recs, err := rd.ReadAll()
	if err != nil {
		return nil, err
	}
	ts := []tuple{}
	for i, rec := range recs {
		if i == 0 && len(rec) > 0 && rec[0] == "diff-type" {
			continue
		}
		if len(rec) != 6 {
			return nil, fmt.Errorf("diff csv record with %d fields: %v", len(rec), rec)
		}
		t, err := mkDiffTuple(rec[0], rec[1], rec[2], rec[3], rec[4], rec[5])
		if err != nil {
			return nil, err
		}
		ts = append(ts, t)
	}
	return ts, nil
}

func parseDiffMD(out string) ([]tuple, error) {
	ts := []tuple{}
	for _, line := range strings.Split(out, "\n") {
		line = strings.TrimSpace(line)
		if line == "" || strings.HasPrefix(line, "|---") || strings.HasPrefix(line, "| diff-type |") {
			continue
		}
		if !strings.HasPrefix(line, "| ") || !strings.HasSuffix(line, " |") {
			return nil, fmt.Errorf("diff md line not a row: %q", line)
		}
		f := strings.Split(line[2:len(line)-1], " | ")
		if len(f) != 6 {
			return nil, fmt.Errorf("diff md row with %d cells: %q", len(f), line)
		}
		t, err := mkDiffTuple(f[0], f[1], f[2], f[3], f[4], strings.TrimSpace(f[5]))
		if err != nil {
			return nil, err
		}
		ts = append(ts, t)
	}
	return ts, nil
}

func parseDiffDot(out, ref1 string) ([]tuple, error) {
	type edge struct{ a, b, label, color string }
	edges := []edge{}
	nodeColor := map[string]string{}
	for _, line := range strings.Split(out, "\n") {
		if strings.Contains(line, "[style=invis") || strings.Contains(line, "arrowsize=") {
			continue // legend
		}
		if m := dotEdgeRe.FindStringSubmatch(line); m != nil {
			a, _ := strconv.Unquote(m[1])
			b, _ := strconv.Unquote(m[2])
			l, _ := strconv.Unquote(m[3])
			edges = append(edges, edge{a, b, l, m[4]})
			continue
		}
		if m := dotNodeRe.FindStringSubmatch(line); m != nil {
			id, _ := strconv.Unquote(m[1])
			nodeColor[id] = m[3]
			continue
		}
		if strings.Contains(line, " -> ") {
			return nil, fmt.Errorf("diff dot edge not understood: %q", line)
		}
	}
	ts := []tuple{}
	for _, e := range edges {
		var typ, c1, c2 string
		switch e.color {
		case "grey":
			typ, c1, c2 = "unchanged", e.label, e.label
		case "#008000":
			typ, c1, c2 = "added", "No Connections", e.label
		case "red2":
			typ, c1, c2 = "removed", e.label, "No Connections"
		case "magenta":
			typ = "changed"
			marker := " (" + ref1 + ": "
			i := strings.Index(e.label, marker)
			if i < 0 || !strings.HasSuffix(e.label, ")") {
				return nil, fmt.Errorf("changed edge label not understood: %q", e.label)
			}
			c2, c1 = e.label[:i], e.label[i+len(marker):len(e.label)-1]
		default:
			return nil, fmt.Errorf("edge colour not understood: %q", e.color)
		}
		// annotation from node colours: green = new, red = lost
		info := ""
		mark := func(id string) bool {
			c := nodeColor[id]
			return (typ == "added" && c == "#008000") || (typ == "removed" && c == "red")
		}
		s, d := mark(e.a), mark(e.b)
		switch {
		case s && d:
			info = "src+dst"
		case s:
			info = "src"
		case d:
			info = "dst"
		}
		p1, ok1 := parseConnStr(c1)
		p2, ok2 := parseConnStr(c2)
		if !ok1 || !ok2 {
			return nil, fmt.Errorf("diff dot label unparsable: %q", e.label)
		}
		ts = append(ts, tuple{Section: typ, Src: e.a, Dst: e.b, Conn: p1, Conn2: p2, Info: info})
	}
	return ts, nil
}

// ---- comparison

func tupleSet(ts []tuple, keep func(tuple) bool) map[string]int {
	m := map[string]int{}
	for _, t := range ts {
		if keep == nil || keep(t) {
			m[t.key()]++
		}
	}
	return m
}

func compareSets(r *run.CaseResult, what string, want, got map[string]int, fmtA, fmtB, sigPat string) {
	diffs := []string{}
	for k, n := range want {
		if got[k] != n {
			diffs = append(diffs, fmt.Sprintf("%s has %d x, %s has %d x: %s", fmtA, n, fmtB, got[k], k))
		}
	}
	for k, n := range got {
		if _, ok := want[k]; !ok {
			diffs = append(diffs, fmt.Sprintf("%s has 0 x, %s has %d x: %s", fmtA, fmtB, n, k))
		}
	}
	sort.Strings(diffs)
	if len(diffs) > 0 {
		r.Violate("c09.encode", "c09.encode:"+sigPat+":"+fmtB+"-differs", what+": identical tuple sets in "+fmtA+" and "+fmtB, strings.Join(diffs[:min(3, len(diffs))], " ;; "), fmt.Sprintf("%d differing tuples", len(diffs)))
	}
}

func runC09(c *run.Ctx) {
	r := c.Res
	g := c.R("world")
	if c.Idx < 2*nFix(c.Tier) { // the repository's own manifest directories, with and without exposure
		dir := fixtureAt(c.Repo, c.Tier, c.Idx/2)
		if dir == "" {
			r.Discarded = "no fixtures"
			return
		}
		exposure := c.Idx%2 == 1
		r.Name = fmt.Sprintf("fixture %s exposure=%v", dir, exposure)
		r.Hash = r.Name
		r.Ev("fixture_results", 1)
		want, partial, nExp, _, ok := c09JudgeList(c, dir, exposure)
		if ok {
			r.Effective = len(want) > 0
			r.NonTrivial = len(want) >= 3 && partial && (!exposure || nExp > 0)
		}
		return
	}
	fam := c.Idx % 3
	cfg := world.DefaultCfg()
	cfg.KindTwins, cfg.SharedNames = 0.15, 0.25
	cfg.NamedEgressIP = 0
	cfg.MaxWorkloads = 5
	if g.P(0.4) {
		cfg.Kinds = world.AllWorkloadKinds
	}
	switch fam {
	case 0, 1: // list
		var w *world.World
		exposure := fam == 0
		if exposure && c.Idx%33 == 0 {
			// nothing is exposed: the exposure part of every format is empty while the plain part holds workload and address lines
			w = world.GenSealedWorld(g)
			r.Ev("sealed_worlds_under_exposure", 1)
		} else if exposure {
			w = genExposureWorld(g, false)
			if g.P(0.4) {
				world.AddCanonStress(g, w)
			}
			if g.P(0.25) && len(w.Workloads) > 0 {
				// a workload governed in both directions by rules that name address blocks only: it has connections with external
				// addresses but no potential exposure inside the cluster - its lines belong to the base relation of every format only
				x := rng.Pick(g, w.Workloads)
				w.NetPols = append(w.NetPols, world.NetPol{Ns: x.Ns, Name: "addresses-only", PodSel: *world.SelFor(g, x.Labels), HasTypes: true, PolicyTypes: []string{"Ingress", "Egress"},
					Ingress: []world.NPRule{{Peers: []world.NPPeer{{IPBlock: &world.IPB{CIDR: "10.0.0.0/8"}}}, Ports: []world.NPPort{{Port: 8080}}}},
					Egress:  []world.NPRule{{Peers: []world.NPPeer{{IPBlock: &world.IPB{CIDR: rng.Pick(g, []string{"192.168.0.0/16", "10.0.0.0/8"})}}}}}})
				w.AddFeature("addressesOnlyWorkloadUnderExposure")
			}
		} else {
			if g.P(0.4) {
				w = world.GenPrecedenceWorld(g, cfg)
			} else {
				w = world.GenNPWorld(g, cfg)
				world.AddCanonStress(g, w)
			}
			world.GenIngressResources(g, w)
		}
		r.Hash = w.Hash() + fmt.Sprint(fam)
		dir := c.Dir("input")
		if err := w.Write(dir, c.R("layout")); err != nil {
			r.Discarded = err.Error()
			return
		}
		want, partial, nExp, outs, ok := c09JudgeList(c, dir, exposure)
		if !ok {
			return
		}
		r.Effective = len(want) > 0
		r.NonTrivial = len(want) >= 3 && partial && (!exposure || nExp > 0)
		if c.Idx%101 == 0 || len(r.Violations) > 0 {
			r.SetSample(map[string]interface{}{"family": fam, "txt": outs["txt"], "tuples_api": len(want), "exposure_entries_api": nExp})
		}
	default: // diff
		wa, _ := genDiffBase(g)
		if gi := c.R("icname"); gi.P(0.15) && len(wa.Workloads) > 0 {
			// a REAL workload that happens to be called ingress-controller (a common Deployment name) is a workload like any other
			taken := false
			for i := range wa.Workloads {
				taken = taken || wa.Workloads[i].Name == "ingress-controller"
			}
			if !taken {
				x := &wa.Workloads[gi.Intn(len(wa.Workloads))]
				if x.Kind != world.KOwnedPods {
					x.Name = "ingress-controller"
					r.Ev("diff_worlds_with_a_real_workload_named_ingress_controller", 1)
				}
			}
		}
		wb := wa
		edits := []string{}
		for n := g.Range(1, 3); n > 0; n-- {
			nw, name := world.Mutate(g, wb, cfg)
			edits = append(edits, name)
			if nw == nil {
				nw, _ = genDiffBase(g)
			}
			wb = nw
		}
		r.Hash = wa.Hash() + wb.Hash()
		da, db := c.Dir("A"), c.Dir("B")
		if wa.Write(da, c.R("la")) != nil || wb.Write(db, c.R("lb")) != nil {
			r.Discarded = "emit"
			return
		}
		outs := map[string]string{}
		var api *observe.DiffResult
		for _, f := range []string{"txt", "csv", "md", "dot"} {
			d := observe.Diff(da, db, observe.DiffOpts{Format: f, Names: [2]string{"dir1", "dir2"}})
			if d.Panic != "" {
				r.Violate("c09.total", "c09.total:any:panic", "a result or an error", "panic: "+d.Panic, f)
				return
			}
			if d.HasErr || d.OutErr != "" {
				r.Ev("tool_errors", 1)
				return
			}
			outs[f] = d.Output
			api = d
		}
		want := []tuple{}
		nonUnchanged := 0
		partial := false
		for _, e := range api.Entries {
			info := ""
			switch {
			case e.SrcNew && e.DstNew:
				info = "src+dst"
			case e.SrcNew:
				info = "src"
			case e.DstNew:
				info = "dst"
			}
			if info != "" {
				r.Ev("diff_entries_with_annotation", 1)
			}
			if e.Type != "unchanged" {
				nonUnchanged++
			}
			if !e.C1All && !e.C1.IsEmpty() || !e.C2All && !e.C2.IsEmpty() {
				partial = true
			}
			want = append(want, tuple{Section: e.Type, Src: e.Src, Dst: e.Dst, Conn: canonConn(e.C1, nil), Conn2: canonConn(e.C2, nil), Info: info})
		}
		parsed := map[string][]tuple{}
		var err error
		parsed["txt"], err = parseDiffTxt(outs["txt"])
		if err == nil {
			parsed["csv"], err = parseDiffCSV(outs["csv"])
		}
		if err == nil {
			parsed["md"], err = parseDiffMD(outs["md"])
		}
		if err == nil {
			parsed["dot"], err = parseDiffDot(outs["dot"], "dir1")
		}
		if err != nil {
			r.Violate("c09.parse", "c09.parse:diff:unparsable", "every format parses back", err.Error(), "")
			return
		}
		if api.Empty {
			// nothing added/removed/changed: every format (dot included) prints nothing and only logs "No connections diff"
			r.Ev("empty_diffs", 1)
			for _, f := range []string{"txt", "csv", "md", "dot"} {
				if len(parsed[f]) != 0 {
					r.Violate("c09.encode", "c09.encode:diff-empty:"+f+"-differs", "no entries for an empty diff", fmt.Sprintf("%d tuples in %s", len(parsed[f]), f), "")
				}
			}
			r.Effective = true
			return
		}
		changedOnly := func(t tuple) bool { return t.Section != "unchanged" }
		for _, f := range []string{"txt", "csv", "md"} {
			r.Ev("formats_parsed", 1)
			r.Ev("diff_tuples_compared", int64(len(parsed[f])))
			compareSets(r, "diff entries (added/removed/changed)", tupleSet(want, changedOnly), tupleSet(parsed[f], nil), "api", f, "diff")
		}
		r.Ev("formats_parsed", 1)
		r.Ev("diff_tuples_compared", int64(len(parsed["dot"])))
		compareSets(r, "diff entries incl. unchanged", tupleSet(want, nil), tupleSet(parsed["dot"], nil), "api", "dot", "diff")
		r.Effective = len(want) > 0
		r.NonTrivial = len(want) >= 3 && partial && nonUnchanged > 0
		if c.Idx%101 == 2 || len(r.Violations) > 0 {
			r.SetSample(map[string]interface{}{"family": "diff", "edits": edits, "txt": outs["txt"], "entries_api": len(want)})
		}
	}
}

// selTokens renders a selector as a sorted token list: "k=v" for matchLabels, "k Op v1 v2" for expressions.
func selTokens(sel *world.Sel) []string {
	out := []string{}
	if sel == nil {
		return out
	}
	for k, v := range sel.ML {
		out = append(out, k+"="+v)
	}
	for _, e := range sel.ME {
		vs := []string{}
		for _, v := range e.Vals {
			if v != "" { // the printed form `Values:[ a]` cannot tell an empty value apart; it is left out on both sides
				vs = append(vs, v)
			}
		}
		sort.Strings(vs)
		out = append(out, strings.TrimSpace(e.Key+" "+e.Op+" "+strings.Join(vs, " ")))
	}
	sort.Strings(out)
	return out
}

var exprRe = regexp.MustCompile(`^\{Key:([^,]*),Operator:(\w+),Values:\[([^\]]*)\],\}$`)

// peerPartTokens parses the inside of "{...}" of a representative peer name into the same token form.
func peerPartTokens(inner string) ([]string, bool) {
	out := []string{}
	depth, start := 0, 0
	items := []string{}
	for i := 0; i < len(inner); i++ {
		switch inner[i] {
		case '{', '[':
			depth++
		case '}', ']':
			depth--
		case ',':
			if depth == 0 {
				items = append(items, inner[start:i])
				start = i + 1
			}
		}
	}
	if start < len(inner) {
		items = append(items, inner[start:])
	}
	for _, it := range items {
		if m := exprRe.FindStringSubmatch(it); m != nil {
			vs := strings.Fields(m[3])
			sort.Strings(vs)
			out = append(out, strings.TrimSpace(m[1]+" "+m[2]+" "+strings.Join(vs, " ")))
		} else if strings.Contains(it, "=") && !strings.ContainsAny(it, "{}") {
			out = append(out, it)
		} else {
			return nil, false
		}
	}
	sort.Strings(out)
	return out, true
}

// repPeerMatches decides whether a printed representative peer name denotes exactly the given selectors.
func repPeerMatches(name string, nsSel, podSel *world.Sel) bool {
	i := strings.LastIndex(name, "/[")
	if i < 0 {
		return false
	}
	nsPart, podPart := name[:i], name[i+1:]
	var gotNs, gotPod []string
	ok := true
	switch {
	case nsPart == "[all namespaces]":
	case strings.HasPrefix(nsPart, "[namespace with {") && strings.HasSuffix(nsPart, "}]"):
		gotNs, ok = peerPartTokens(nsPart[len("[namespace with {") : len(nsPart)-2])
	default:
		gotNs = []string{world.MetaName + "=" + nsPart}
	}
	if !ok {
		return false
	}
	switch {
	case podPart == "[all pods]":
	case strings.HasPrefix(podPart, "[pod with {") && strings.HasSuffix(podPart, "}]"):
		gotPod, ok = peerPartTokens(podPart[len("[pod with {") : len(podPart)-2])
	default:
		return false
	}
	if !ok {
		return false
	}
	return strings.Join(gotNs, ";") == strings.Join(selTokens(nsSel), ";") && strings.Join(gotPod, ";") == strings.Join(selTokens(podSel), ";")
}

// c09JudgeList renders one directory in all five list formats, parses them back and compares with the API result.
func c09JudgeList(c *run.Ctx, dir string, exposure bool) ([]tuple, bool, int, map[string]string, bool) {
	r := c.Res
	outs := map[string]string{}
	var api *observe.ListResult
	for _, f := range []string{"txt", "json", "csv", "md", "dot"} {
		res := observe.List(dir, observe.ListOpts{Format: f, Exposure: exposure})
		if res.Panic != "" {
			r.Violate("c09.total", "c09.total:any:panic", "a result or an error", "panic: "+res.Panic, f)
			return nil, false, 0, nil, false
		}
		if res.HasErr || res.OutErr != "" {
			r.Ev("tool_errors", 1)
			return nil, false, 0, nil, false
		}
		outs[f] = res.Output
		r.Ev("outputs_rendered_twice_by_one_analyzer", 1)
		if res.OutputAgainDiffers {
			r.Violate("c09.encode", "c09.encode:"+f+":second-rendering-differs", "the same bytes when the same analyzer renders the same connections again", firstDiffText(res.Output, res.OutputAgain), f)
		}
		if f == "txt" {
			api = res
		}
	}
	// tuples from the API result
	want := []tuple{}
	partial := false
	for _, e := range api.Entries {
		want = append(want, tuple{Section: "base", Src: e.Src, Dst: e.Dst, Conn: canonConn(e.Conn, nil)})
		if !e.All {
			partial = true
			for _, rs := range e.Ranges {
				if len(rs) > 1 {
					r.Ev("multi_range_connections", 1)
				}
			}
		}
		if e.Src == "{ingress-controller}" {
			r.Ev("ingress_controller_tuples", 1)
		}
	}
	nExp := 0
	type apiExp struct {
		dir, wl string
		e       *observe.XgressInfo
		conn    string
	}
	apiEntries := []apiExp{}
	wantUnprot := []string{}
	if exposure {
		for i := range api.Exposed {
			ep := &api.Exposed[i]
			for _, d := range []string{"ingress", "egress"} {
				prot, ents := ep.IngressProtected, ep.Ingress
				if d == "egress" {
					prot, ents = ep.EgressProtected, ep.Egress
				}
				if !prot {
					wantUnprot = append(wantUnprot, ep.Peer+" is not protected on "+strings.ToUpper(d[:1])+d[1:])
					apiEntries = append(apiEntries, apiExp{d, ep.Peer, &observe.XgressInfo{EntireCluster: true}, refmodel.FullConn().String()})
					continue
				}
				for k := range ents {
					named := map[string][]string{}
					for pr, ns := range ents[k].Named {
						named[pr] = ns
						r.Ev("tuples_with_named_ports", 1)
					}
					apiEntries = append(apiEntries, apiExp{d, ep.Peer, &ents[k], canonConn(ents[k].Conn, named)})
				}
			}
		}
		nExp = len(apiEntries)
	}
	wantBase := tupleSet(want, nil)
	parsed := map[string][]tuple{}
	var err error
	var txtUnprot []string
	parsed["txt"], txtUnprot, err = parseListTxt(outs["txt"])
	if err == nil {
		parsed["json"], err = parseListJSON(outs["json"], exposure)
	}
	if err == nil {
		parsed["csv"], err = parseListCSV(outs["csv"])
	}
	if err == nil {
		parsed["md"], err = parseListMD(outs["md"])
	}
	if err == nil {
		parsed["dot"], _, err = parseListDot(outs["dot"])
	}
	if err != nil {
		r.Violate("c09.parse", "c09.parse:list:unparsable", "every format parses back", err.Error(), "")
		return nil, false, 0, nil, false
	}
	isBase := func(t tuple) bool { return t.Section == "base" }
	isExpSel := func(t tuple) bool { // exposure tuples other than the repeated address lines
		if t.Section == "base" {
			return false
		}
		other := t.Dst
		if t.Section == "ingress" {
			other = t.Src
		}
		_, _, isIP := world.ParseRange(strings.Split(other, ",")[0])
		return !isIP
	}
	isExpIP := func(t tuple) bool { return t.Section != "base" && !isExpSel(t) }
	for _, f := range []string{"txt", "json", "csv", "md", "dot"} {
		r.Ev("formats_parsed", 1)
		r.Ev("tuples_compared", int64(len(parsed[f])))
		compareSets(r, "base relation", wantBase, tupleSet(parsed[f], isBase), "api", f, "list-base")
		if exposure {
			r.Ev("exposure_tuples_compared", int64(len(tupleSet(parsed[f], isExpSel))))
			if f != "txt" {
				compareSets(r, "exposure entries", tupleSet(parsed["txt"], isExpSel), tupleSet(parsed[f], isExpSel), "txt", f, "list-exposure")
			}
			if f != "txt" && f != "dot" {
				compareSets(r, "exposure address lines", tupleSet(parsed["txt"], isExpIP), tupleSet(parsed[f], isExpIP), "txt", f, "list-exposure-ip")
			}
		}
	}
	if exposure {
		// txt vs API: every API entry has a tuple with the same workload, direction, connection and a peer name that mentions its selectors
		txtExp := []tuple{}
		for _, t := range parsed["txt"] {
			if isExpSel(t) {
				txtExp = append(txtExp, t)
			}
		}
		if len(txtExp) != len(apiEntries) {
			r.Violate("c09.encode", "c09.encode:list-exposure:count", fmt.Sprintf("%d exposure entries (API)", len(apiEntries)), fmt.Sprintf("%d in txt", len(txtExp)), "")
		}
		used := make([]bool, len(txtExp))
		for _, ae := range apiEntries {
			found := false
			for i, t := range txtExp {
				if used[i] || t.Section != ae.dir || t.Conn != ae.conn {
					continue
				}
				wl, other := t.Src, t.Dst
				if ae.dir == "ingress" {
					wl, other = t.Dst, t.Src
				}
				if wl != ae.wl {
					continue
				}
				if ae.e.EntireCluster != (other == "entire-cluster") {
					continue
				}
				ok := true
				if !ae.e.EntireCluster {
					ok = repPeerMatches(other, ae.e.NsSel, ae.e.PodSel)
				}
				if ok {
					used[i], found = true, true
					break
				}
			}
			if !found {
				r.Violate("c09.encode", "c09.encode:list-exposure:api-entry-missing", "an exposure line for API entry "+ae.wl+" "+ae.dir+" "+entryStr(ae.e)+" with connection "+ae.conn, "no such line in txt", "")
				break
			}
		}
		// the exposure sections repeat, for every exposed peer and direction, the peer's connections with address ranges
		// (documented layout of the exposure report); dot encodes them in the base relation only
		wantIP := map[string]int{}
		for i := range api.Exposed {
			ep := &api.Exposed[i]
			for _, e := range api.Entries {
				if e.Src == ep.Peer && e.DstIP {
					wantIP[tuple{Section: "egress", Src: e.Src, Dst: e.Dst, Conn: canonConn(e.Conn, nil)}.key()]++
				}
				if e.Dst == ep.Peer && e.SrcIP {
					wantIP[tuple{Section: "ingress", Src: e.Src, Dst: e.Dst, Conn: canonConn(e.Conn, nil)}.key()]++
				}
			}
		}
		compareSets(r, "address lines of the exposure sections", wantIP, tupleSet(parsed["txt"], isExpIP), "api", "txt", "list-exposure-ip")
		// address lines in the exposure sections must be lines of the base relation
		for _, t := range parsed["txt"] {
			if isExpIP(t) {
				if wantBase[tuple{Section: "base", Src: t.Src, Dst: t.Dst, Conn: t.Conn}.key()] == 0 {
					r.Violate("c09.encode", "c09.encode:list-exposure-ip:not-in-base", "address lines of the exposure section repeat base connections", t.key(), "")
					break
				}
			}
		}
		sort.Strings(wantUnprot)
		sort.Strings(txtUnprot)
		if strings.Join(wantUnprot, "\n") != strings.Join(txtUnprot, "\n") {
			r.Violate("c09.encode", "c09.encode:list-unprotected:differs", strings.Join(wantUnprot, " | "), strings.Join(txtUnprot, " | "), "")
		}
	}
	return want, partial, nExp, outs, true
}
