package checks

import (
	"fmt"
	"sort"
	"strings"

	"verif/harness/internal/observe"
	"verif/harness/internal/refmodel"
	"verif/harness/internal/run"
	"verif/harness/internal/world"
)

func init() {
	run.Register(&run.Check{
		ID:    "C10",
		Level: "exploration",
		Rule: "cases: worlds built around the Ingress/Route -> Service -> workload chain (Ingresses with default backend and rules/paths designating service ports by number or name, Routes with to / alternateBackends / with and without port.targetPort, Services with named and numbered ports and targetPorts, missing targetPort, selectors matching 0/1/several workloads, missing services, several objects per workload; workloads with TCP, defaulted and UDP container ports, named ports) under NetworkPolicies and, in a third of the cases, ANP/BANP that allow / partly allow / block an arbitrary source; " +
			"oracle: a reference model of the chain written from the statement, composed with the C01/C02 policy model evaluated for an unlabelled pod in a namespace unknown to the input; the reported {ingress-controller} => W connection must equal the model's for every workload, absent exactly when the model's is empty, and a blocked backend must be named by a warning; " +
			"non-trivial = the model predicts a line for some workload and the policies restrict the arbitrary source for some targeted workload, or a backend is blocked; effective = some Ingress/Route designates a port of a service that selects a workload; distinct = world hash",
		Assumptions: []string{"an Ingress designates a service port by its number or name only; a Route by port.targetPort - a name is a service port's own name or its named targetPort, a number a service targetPort - or, without it, all service ports; designations the statement leaves ambiguous are not generated (a Route number equal to another service port's `port`, a Route name or number matching more than one service port)",
			"service selectors are non-empty maps (an empty selector is read differently by Kubernetes and the tool and the statement does not say)", "service port protocols are TCP or defaulted"},
		NumCases:          func(tier string, _ int64) int { return tierN(tier, 3000, 60000) },
		Run:               runC10,
		MinNonTrivial:     150,
		MinEffectiveShare: 0.5,
		RequiredEvents: map[string]int64{"workloads_compared": 3000, "lines_predicted": 500, "lines_partly_restricted_by_policy": 30, "blocked_backends": 50, "udp_container_port_behind_designated_service_port": 30,
			"ingress_number_equals_only_a_targetport": 20, "route_without_port": 50, "named_targetport_resolved": 100},
	})
}

// ingressModel computes, per workload index, the TCP ports designated through Ingress/Route -> Service.
// alt=true reads an Ingress port number the way the tool's shared matcher does (first service port whose name, port OR numeric
// targetPort equals it); it is used only to recognise the known finding C10-ingress-number-vs-targetport.
func ingressModel(w *world.World, r *run.CaseResult, alt bool) (map[int]*refmodel.PSet, map[int]bool) {
	ports := map[int]*refmodel.PSet{}
	targeted := map[int]bool{}
	svcOf := func(ns, name string) *world.Service {
		for i := range w.Services {
			if w.Services[i].Ns == ns && w.Services[i].Name == name {
				return &w.Services[i]
			}
		}
		return nil
	}
	reach := func(ns string, sv *world.Service, sps []*world.SvcPort) {
		if sv == nil || sv.Selector == nil {
			return
		}
		for wi := range w.Workloads {
			wl := &w.Workloads[wi]
			if wl.Ns != ns {
				continue
			}
			match := true
			for k, v := range sv.Selector {
				if x, ok := wl.Labels[k]; !ok || x != v { // the key must be present (an empty value is a value)
					match = false
				}
			}
			if !match {
				continue
			}
			targeted[wi] = true
			if ports[wi] == nil {
				ports[wi] = &refmodel.PSet{}
			}
			for _, sp := range sps {
				num := 0
				switch {
				case sp.TargetName != "":
					for _, cp := range wl.Ports {
						if cp.Name == sp.TargetName {
							if cp.Protocol() == "TCP" {
								num = cp.Num
								if r != nil {
									r.Ev("named_targetport_resolved", 1)
								}
							}
							break
						}
					}
				case sp.TargetNum != 0:
					num = sp.TargetNum
				default:
					num = sp.Port
				}
				if num == 0 {
					continue
				}
				hasTCP := false
				for _, cp := range wl.Ports {
					if cp.Num == num {
						if cp.Protocol() == "TCP" {
							hasTCP = true
						} else if r != nil {
							r.Ev("udp_container_port_behind_designated_service_port", 1)
						}
					}
				}
				if hasTCP {
					ports[wi].AddRange(num, num)
				}
			}
		}
	}
	for i := range w.Ingresses {
		in := &w.Ingresses[i]
		bs := []world.Backend{}
		if in.Default != nil {
			bs = append(bs, *in.Default)
		}
		for _, rule := range in.Rules {
			bs = append(bs, rule...)
		}
		for _, b := range bs {
			sv := svcOf(in.Ns, b.Svc)
			if sv == nil {
				continue
			}
			var des []*world.SvcPort
			for pi := range sv.Ports {
				sp := &sv.Ports[pi]
				if (b.PortName != "" && sp.Name == b.PortName) || (b.PortName == "" && sp.Port == b.PortNum) ||
					(alt && b.PortName == "" && sp.TargetName == "" && sp.TargetNum == b.PortNum) {
					des = append(des, sp)
					if alt {
						break // first match wins
					}
				}
			}
			if len(des) == 0 && b.PortName == "" && r != nil {
				for pi := range sv.Ports {
					if sv.Ports[pi].TargetNum == b.PortNum {
						r.Ev("ingress_number_equals_only_a_targetport", 1)
					}
				}
			}
			reach(in.Ns, sv, des)
		}
	}
	for i := range w.Routes {
		rt := &w.Routes[i]
		for _, name := range append([]string{rt.To}, rt.Alternates...) {
			sv := svcOf(rt.Ns, name)
			if sv == nil {
				continue
			}
			var des []*world.SvcPort
			for pi := range sv.Ports {
				sp := &sv.Ports[pi]
				switch {
				case rt.TargetName != "":
					if sp.Name == rt.TargetName || sp.TargetName == rt.TargetName { // the service port's own name, or its named targetPort
						des = append(des, sp)
						if sp.Name != rt.TargetName && r != nil {
							r.Ev("route_name_is_a_targetport_name", 1)
						}
					}
				case rt.TargetNum != 0:
					if sp.TargetNum == rt.TargetNum || (sp.TargetNum == 0 && sp.TargetName == "" && sp.Port == rt.TargetNum) {
						des = append(des, sp)
					}
				default:
					des = append(des, sp)
				}
			}
			if rt.TargetName == "" && rt.TargetNum == 0 && r != nil {
				r.Ev("route_without_port", 1)
			}
			reach(rt.Ns, sv, des)
		}
	}
	return ports, targeted
}

// c10Ambiguous rejects designations the statement leaves open.
func c10Ambiguous(w *world.World) string {
	svcOf := func(ns, name string) *world.Service {
		for i := range w.Services {
			if w.Services[i].Ns == ns && w.Services[i].Name == name {
				return &w.Services[i]
			}
		}
		return nil
	}
	for i := range w.Services {
		if w.Services[i].Selector != nil && len(w.Services[i].Selector) == 0 {
			return "service with empty selector"
		}
	}
	for i := range w.Ingresses { // an Ingress port number carried by several ports of the service (one number under two protocols)
		in := &w.Ingresses[i]
		bs := append([]world.Backend{}, func() []world.Backend {
			if in.Default != nil {
				return []world.Backend{*in.Default}
			}
			return nil
		}()...)
		for _, rule := range in.Rules {
			bs = append(bs, rule...)
		}
		for _, b := range bs {
			if sv := svcOf(in.Ns, b.Svc); sv != nil && b.PortName == "" {
				n := 0
				for _, sp := range sv.Ports {
					if sp.Port == b.PortNum {
						n++
					}
				}
				if n > 1 {
					return "ingress port number carried by several service ports"
				}
			}
		}
	}
	for i := range w.Routes {
		rt := &w.Routes[i]
		for _, name := range append([]string{rt.To}, rt.Alternates...) {
			sv := svcOf(rt.Ns, name)
			if sv == nil {
				continue
			}
			matches := 0
			for _, sp := range sv.Ports {
				if rt.TargetNum != 0 {
					byTarget := sp.TargetNum == rt.TargetNum || (sp.TargetNum == 0 && sp.TargetName == "" && sp.Port == rt.TargetNum)
					byPort := sp.Port == rt.TargetNum
					if byPort && !byTarget {
						return "route number equals a service port number whose targetPort differs"
					}
					if byTarget {
						matches++
					}
				}
				if rt.TargetName != "" && (sp.Name == rt.TargetName || sp.TargetName == rt.TargetName) {
					matches++
				}
			}
			if matches > 1 {
				return "route designation matches several service ports"
			}
		}
	}
	return ""
}

// witness of the known finding C10-ingress-number-vs-targetport (also committed as YAML under findings/)
func c10WitnessWorld() *world.World {
	return &world.World{
		Namespaces: []world.Namespace{{Name: "ns1", HasObj: true}},
		Workloads:  []world.Workload{{Ns: "ns1", Name: "w", Kind: world.KDeployment, Labels: map[string]string{"app": "b"}, Ports: []world.CPort{{Num: 81}, {Num: 443}}}},
		Services: []world.Service{{Ns: "ns1", Name: "svc", Selector: map[string]string{"app": "b"},
			Ports: []world.SvcPort{{Name: "api", Port: 8080, TargetNum: 81}, {Name: "web", Port: 81, TargetNum: 443}}}},
		Ingresses: []world.Ingress{{Ns: "ns1", Name: "ing", Rules: [][]world.Backend{{{Svc: "svc", PortNum: 81}}}}},
	}
}

func runC10(c *run.Ctx) {
	r := c.Res
	g := c.R("world")
	if c.Idx == 0 {
		r.Name = "witness C10-ingress-number-vs-targetport"
		c10Judge(c, c10WitnessWorld())
		return
	}
	cfg := world.DefaultCfg()
	cfg.NamedEgressIP = 0
	cfg.MaxWorkloads = 5
	cfg.MinNetPols, cfg.MaxNetPols = 0, 3
	var w *world.World
	for try := 0; ; try++ {
		w = world.GenBase(g, cfg)
		world.GenIngressResources(g, w)
		for i := range w.Services {
			for pi := range w.Services[i].Ports {
				if w.Services[i].Ports[pi].Proto == "UDP" {
					w.Services[i].Ports[pi].Proto = ""
				}
			}
		}
		// a Service listing one port NUMBER under two protocols (443/UDP for QUIC before 443/TCP): two different service ports; the UDP
		// one targets a number the workload does not declare, so it reaches nothing however it is designated
		if g.P(0.15) && len(w.Services) > 0 {
			sv := &w.Services[g.Intn(len(w.Services))]
			for pi := range sv.Ports {
				if sv.Ports[pi].Name == "" || sv.Ports[pi].Proto == "UDP" {
					continue
				}
				twin := world.SvcPort{Name: "quic", Port: sv.Ports[pi].Port, TargetNum: 9999, Proto: "UDP"}
				sv.Ports[pi].Proto = "TCP"
				sv.Ports = append(sv.Ports[:pi], append([]world.SvcPort{twin}, sv.Ports[pi:]...)...)
				w.AddFeature("servicePortNumberUnderTwoProtocols")
				break
			}
		}
		// policies come after the ingress resources so that selectors can aim at the targeted workloads
		world.GenNetPols(g, w, cfg)
		// goal-directed: policies that select a service-backed workload and allow an arbitrary source on part of its ports
		for si := range w.Services {
			if !g.P(0.5) {
				continue
			}
			for wi := range w.Workloads {
				wl := &w.Workloads[wi]
				sel := w.Services[si].Selector
				ok := wl.Ns == w.Services[si].Ns && len(sel) > 0
				for k, v := range sel {
					if x, ok := wl.Labels[k]; !ok || x != v { // the key must be present (an empty value is a value)
						ok = false
					}
				}
				if !ok || len(wl.Ports) == 0 {
					continue
				}
				np := world.NetPol{Ns: wl.Ns, Name: fmt.Sprintf("aim%d-%d", si, wi), PodSel: *world.SelFor(g, wl.Labels), HasTypes: true, PolicyTypes: []string{"Ingress"}}
				rule := world.NPRule{}
				switch g.Intn(4) {
				case 0:
					rule.Peers = []world.NPPeer{{NsSel: &world.Sel{}}}
				case 1:
					rule.Peers = []world.NPPeer{{NsSel: &world.Sel{ME: []world.Req{{Key: world.MetaName, Op: "NotIn", Vals: []string{wl.Ns}}}}}}
				case 2:
					rule.Peers = []world.NPPeer{{PodSel: &world.Sel{ME: []world.Req{{Key: "app", Op: "DoesNotExist"}}}, NsSel: &world.Sel{}}}
				default:
					rule.Peers = []world.NPPeer{{PodSel: &world.Sel{}}} // same namespace only: blocks the arbitrary source
				}
				for _, cp := range wl.Ports {
					if g.P(0.5) {
						rule.Ports = append(rule.Ports, world.NPPort{Proto: cp.Proto, Port: cp.Num})
					}
				}
				if len(rule.Ports) == 0 {
					rule.Ports = []world.NPPort{{Port: wl.Ports[0].Num, EndPort: wl.Ports[0].Num + 1}}
					if wl.Ports[0].Num == 65535 {
						rule.Ports = []world.NPPort{{Port: 65534, EndPort: 65535}}
					}
				}
				np.Ingress = []world.NPRule{rule}
				w.NetPols = append(w.NetPols, np)
				break
			}
		}
		if c.Idx%3 == 0 {
			world.GenAdmin(g, w, cfg, 1, 3, 0.5)
		}
		if why := c10Ambiguous(w); why == "" {
			break
		} else if try > 20 {
			r.Discarded = "ambiguous: " + why
			return
		}
		r.Ev("ambiguous_worlds_regenerated", 1)
	}
	c10Judge(c, w)
}

func c10Judge(c *run.Ctx, w *world.World) {
	r := c.Res
	r.Hash = w.Hash()
	r.Feat(w.Features...)
	dir := c.Dir("input")
	if err := w.Write(dir, c.R("layout")); err != nil {
		r.Discarded = err.Error()
		return
	}
	res := observe.List(dir, observe.ListOpts{})
	if res.Panic != "" {
		r.Violate("c10.total", "c10.total:any:panic", "a result or an error", "panic: "+res.Panic, "")
		return
	}
	if res.HasErr {
		r.Violate("c10.model", "c10.model:toolerror:error", "a report", "error: "+res.Err, "")
		return
	}
	ports, targeted := ingressModel(w, r, false)
	altPorts, _ := ingressModel(w, nil, true)
	m := &refmodel.Model{W: w}
	fake := refmodel.Peer{Name: "arbitrary-source", Ns: "ingress-controller-ns", NsLabels: map[string]string{world.MetaName: "ingress-controller-ns"}, Labels: map[string]string{}}
	rel := res.Relation()
	ic := "{ingress-controller}"
	predicted, restricted, blocked := false, false, false
	for wi := range w.Workloads {
		wl := &w.Workloads[wi]
		r.Ev("workloads_compared", 1)
		exp := refmodel.NewConn()
		var fl refmodel.Flags
		pol := m.Allowed(fake, refmodel.WorkloadPeer(w, wl), &fl)
		if ps := ports[wi]; ps != nil {
			exp.P[0] = *ps
			exp.And(pol)
		}
		got, ok := rel[[2]string{ic, wl.PeerString()}]
		if !ok {
			got = refmodel.NewConn()
		}
		if !exp.IsEmpty() {
			predicted = true
			r.Ev("lines_predicted", 1)
			if ps := ports[wi]; ps != nil && exp.P[0] != *ps {
				restricted = true
				r.Ev("lines_partly_restricted_by_policy", 1)
			}
		}
		if !exp.Equal(got) {
			pr, port, inExp := refmodel.FirstDiff(exp, got)
			shape := "extra"
			if inExp {
				shape = "missing"
			}
			kind := "port"
			// classify the structural pattern for known-finding matching
			if !inExp && pr == "TCP" {
				for _, cp := range wl.Ports {
					if cp.Num == port && cp.Protocol() != "TCP" {
						kind = "nontcp-container-port"
					}
				}
				if kind == "port" && pol.Has("TCP", port) {
					kind = "designation"
				}
			}
			// does the tool's answer coincide with the alternative reading of Ingress port numbers (known finding)?
			altExp := refmodel.NewConn()
			if ps := altPorts[wi]; ps != nil {
				altExp.P[0] = *ps
				altExp.And(pol)
			}
			if altExp.Equal(got) && !altExp.Equal(exp) {
				kind, shape = "ingress-number-matches-targetport", "alt-reading"
			}
			r.Violate("c10.model", "c10.model:"+kind+":"+shape, exp.String(), got.String(),
				fmt.Sprintf("%s => %s ; first differing point %s/%d ; policy part allows: %s", ic, wl.PeerString(), pr, port, pol.String()))
		}
		// a backend is blocked when the workload is targeted and nothing is left: the policies allow none of the reached ports, or the
		// designated service port reaches no TCP container port of the workload at all (the intersection is empty either way)
		if ps := ports[wi]; targeted[wi] && ps != nil && exp.IsEmpty() {
			blocked = true
			r.Ev("blocked_backends", 1)
			if ps.IsEmpty() {
				r.Ev("blocked_backends_reaching_no_container_port", 1)
			}
			named := false
			for _, e := range res.Errs {
				if !e.Fatal && strings.Contains(e.Text, wl.PeerString()) {
					named = true
				}
			}
			// under the known finding's pattern the tool follows the alternative reading of the Ingress number for this workload
			altExp := refmodel.NewConn()
			if ps := altPorts[wi]; ps != nil {
				altExp.P[0] = *ps
				altExp.And(pol)
			}
			if !named && altExp.Equal(got) && !altExp.Equal(exp) {
				r.Violate("c10.model", "c10.model:ingress-number-matches-targetport:alt-reading", "a warning naming the blocked backend "+wl.PeerString(),
					"the tool designated another service port (alternative reading) and reports "+got.String(), "")
				named = true
			}
			if !named {
				texts := []string{}
				for _, e := range res.Errs {
					texts = append(texts, e.Text)
				}
				r.Violate("c10.warn", "c10.warn:blocked:no-warning", "a warning naming the blocked backend "+wl.PeerString(), strings.Join(texts, " || "), "")
			}
		}
	}
	// lines about peers that are no workloads of the input
	for _, e := range res.Entries {
		if e.Src == ic {
			found := false
			for wi := range w.Workloads {
				if w.Workloads[wi].PeerString() == e.Dst {
					found = true
				}
			}
			if !found {
				r.Violate("c10.model", "c10.model:unknown-target:extra", "ingress-controller lines to workloads of the input only", e.Dst, "")
			}
		}
	}
	keys := []int{}
	for k := range targeted {
		keys = append(keys, k)
	}
	sort.Ints(keys)
	r.Effective = len(keys) > 0
	r.NonTrivial = (predicted && restricted) || blocked
	if c.Idx%97 == 0 || len(r.Violations) > 0 {
		s := sampleOf(w, res, 40)
		lines := []string{}
		for _, e := range res.Entries {
			if e.Src == ic {
				lines = append(lines, e.Src+" => "+e.Dst+" : "+e.Conn.String())
			}
		}
		s["ingress_controller_lines"] = lines
		delete(s, "reported")
		r.SetSample(s)
	}
}
