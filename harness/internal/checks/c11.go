package checks

import (
	"fmt"
	"sort"
	"strings"

	corev1 "k8s.io/api/core/v1"
	"k8s.io/apimachinery/pkg/util/intstr"

	"github.com/np-guard/netpol-analyzer/pkg/netpol/connlist"

	"verif/harness/internal/refmodel"
	"verif/harness/internal/rng"
	"verif/harness/internal/run"
)

func init() {
	run.Register(&run.Check{
		ID:    "C11",
		Level: "exploration",
		Rule: "cases: batches of random programs (<= 12 steps) over a pool of 4-6 live values of the REAL common.ConnectionSet / common.PortSet types (reached through the verif alias export), built as the code builds them (MakeConnectionSet(true|false), single-protocol sets from ranges / single ports / the full range / named ports) and combined with Union, Intersection, Subtract, Copy; after every step every pool member is compared with a three-bitset model through ProtocolsAndPortsMap and Contains, non-receiver members must be unchanged (deep snapshots), a probe mutation of one member must not show through any other (aliasing), equal denotations must be Equal and print identically, the full set must be flagged and printed 'All Connections', ContainedIn/Equal/IsEmpty must agree with the model; for values carrying named-port bookkeeping only the clauses the statement makes are checked (containment clause, the difference law - a non-empty A minus B is never contained in B -, the union law - B is contained in A united with B -, the intersection laws - A contained in B is left unchanged by intersecting it with B, the full set intersected with B becomes B -, no operand mutation, no aliasing, Copy/Equal/String consistency, exact numeric part); " +
			"non-trivial = a program in which at least one operation changed its receiver and at least one comparison query was answered both ways; distinct = program text hash",
		Assumptions:       []string{"operands are the values reachable from MakeConnectionSet and single-protocol sets by the listed operations (a three-protocol value assembled by raw AddConnection calls and never passed through Union is not an operand)", "ports concentrate on {1,2,79,80,81,65534,65535} and a few ranges so that adjacency and merging happen"},
		NumCases:          func(tier string, _ int64) int { return tierN(tier, 400, 20000) },
		Run:               runC11,
		MinNonTrivial:     200,
		MinEffectiveShare: 0.8,
		RequiredEvents: map[string]int64{"programs": 20000, "operations": 100000, "denotation_checks": 400000, "alias_probes": 50000, "named_containment_clause_checked": 1000, "named_difference_law_checked": 500, "named_union_law_checked": 500, "named_intersection_law_checked": 100,
			"op_Union": 10000, "op_Intersection": 10000, "op_Subtract": 10000, "op_Copy": 5000, "full_set_seen": 1000, "containedin_true": 1000, "containedin_false": 1000, "equal_true": 1000},
	})
}

type csVal struct {
	real  *connlist.VerifConnectionSet
	model *refmodel.Conn
	names [3]map[string]bool // model of the names added per protocol (only used for the containment clause)
}

var c11Ports = []int{1, 2, 79, 80, 81, 65534, 65535, 100, 8080}
var c11Names = []string{"http", "dns"}
var c11Protos = []corev1.Protocol{corev1.ProtocolTCP, corev1.ProtocolUDP, corev1.ProtocolSCTP}

func namedInvolved(c *connlist.VerifConnectionSet) bool {
	for _, ps := range c.AllowedProtocols {
		if len(ps.NamedPorts) > 0 || len(ps.ExcludedNamedPorts) > 0 {
			return true
		}
	}
	return false
}

func snapshot(c *connlist.VerifConnectionSet) string {
	parts := []string{fmt.Sprintf("all=%v", c.AllowAll)}
	keys := []string{}
	for p := range c.AllowedProtocols {
		keys = append(keys, string(p))
	}
	sort.Strings(keys)
	for _, k := range keys {
		ps := c.AllowedProtocols[corev1.Protocol(k)]
		n, e := []string{}, []string{}
		for x := range ps.NamedPorts {
			n = append(n, x)
		}
		for x := range ps.ExcludedNamedPorts {
			e = append(e, x)
		}
		sort.Strings(n)
		sort.Strings(e)
		parts = append(parts, fmt.Sprintf("%s:%s|%v|%v", k, ps.Ports.String(), n, e))
	}
	return strings.Join(parts, ";")
}

func denotation(c *connlist.VerifConnectionSet) (*refmodel.Conn, string) {
	if c.IsAllConnections() {
		if len(c.ProtocolsAndPortsMap()) != 0 {
			return refmodel.FullConn(), "IsAllConnections with a non-empty ProtocolsAndPortsMap"
		}
		return refmodel.FullConn(), ""
	}
	d := refmodel.NewConn()
	problem := ""
	for pr, rs := range c.ProtocolsAndPortsMap() {
		prev := int64(-1)
		for _, r := range rs {
			if r.Start() < 1 || r.End() > 65535 || r.Start() > r.End() {
				problem = fmt.Sprintf("range out of bounds %s %d-%d", pr, r.Start(), r.End())
			}
			if prev >= 0 && r.Start() <= prev+1 {
				problem = fmt.Sprintf("ranges unsorted/overlapping/adjacent under %s", pr)
			}
			prev = r.End()
			d.AddRange(string(pr), int(r.Start()), int(r.End()))
		}
	}
	return d, problem
}

func genPortSet(g *rng.R, m *refmodel.PSet, names map[string]bool, allowNamed bool) *connlist.VerifPortSet {
	switch g.Intn(10) {
	case 0:
		ps := connlist.VerifMakePortSet(true)
		m.AddRange(1, 65535)
		return ps
	default:
		ps := connlist.VerifMakePortSet(false)
		for n := g.Range(1, 3); n > 0; n-- {
			switch {
			case allowNamed && g.P(0.2):
				nm := rng.Pick(g, c11Names)
				ps.AddPort(intstr.FromString(nm))
				names[nm] = true
			case g.P(0.5):
				p := rng.Pick(g, c11Ports)
				ps.AddPort(intstr.FromInt32(int32(p)))
				m.AddRange(p, p)
			default:
				a, b := rng.Pick(g, c11Ports), rng.Pick(g, c11Ports)
				if a > b {
					a, b = b, a
				}
				ps.AddPortRange(int64(a), int64(b))
				m.AddRange(a, b)
			}
		}
		return ps
	}
}

func genValue(g *rng.R, allowNamed bool) *csVal {
	v := &csVal{model: refmodel.NewConn()}
	for i := range v.names {
		v.names[i] = map[string]bool{}
	}
	switch g.Intn(8) {
	case 0:
		v.real = connlist.VerifMakeConnectionSet(true)
		v.model = refmodel.FullConn()
	case 1:
		v.real = connlist.VerifMakeConnectionSet(false)
	default:
		v.real = connlist.VerifMakeConnectionSet(false)
		pi := g.Intn(3)
		ps := genPortSet(g, &v.model.P[pi], v.names[pi], allowNamed)
		v.real.AddConnection(c11Protos[pi], ps)
	}
	return v
}

func runC11(c *run.Ctx) {
	r := c.Res
	g := c.R("programs")
	perCase := 60
	if c.Tier == "thorough" {
		perCase = 120
	}
	changedAny, bothWays := false, false
	hashes := []string{}
	for prog := 0; prog < perCase && len(r.Violations) < 3; prog++ {
		r.Ev("programs", 1)
		allowNamed := prog%3 == 2
		pool := []*csVal{}
		for n := g.Range(4, 6); n > 0; n-- {
			pool = append(pool, genValue(g, allowNamed))
		}
		trace := []string{}
		for _, v := range pool {
			trace = append(trace, "init "+snapshot(v.real))
		}
		fail := func(monitor, shape, exp, got string) {
			r.Violate("c11."+monitor, "c11."+monitor+":"+fmt.Sprintf("named=%v", allowNamed)+":"+shape, exp, got, strings.Join(trace, " ; "))
		}
		verifyAll := func(receiver int, before []string) {
			for i, v := range pool {
				d, problem := denotation(v.real)
				r.Ev("denotation_checks", 1)
				if problem != "" {
					fail("canon", "non-canonical", "canonical ranges", problem)
				}
				if !d.Equal(v.model) {
					fail("denote", "wrong-denotation", fmt.Sprintf("value %d = %s", i, v.model), d.String())
				}
				if v.model.IsFull() && !hasExcludedNames(v.real) {
					// a value holding every port of every protocol denotes the full set whether or not it also lists allowed
					// named ports (a named port is one of those numbers); only an EXCLUDED name makes it less than full
					r.Ev("full_set_seen", 1)
					if !v.real.IsAllConnections() || v.real.String() != "All Connections" {
						fail("canon", "full-not-flagged", "IsAllConnections and 'All Connections'", fmt.Sprintf("%v / %s", v.real.IsAllConnections(), v.real.String()))
					}
				}
				if v.real.IsEmpty() != (v.model.IsEmpty() && !hasNames(v.real)) {
					fail("denote", "isempty", fmt.Sprintf("IsEmpty=%v", v.model.IsEmpty()), fmt.Sprintf("%v", v.real.IsEmpty()))
				}
				// membership probes
				for _, p := range []int{1, 2, 3, 78, 79, 80, 81, 82, 101, 32768, 65533, 65534, 65535} {
					for pi, pr := range []string{"TCP", "udp", "SCTP"} {
						if v.real.Contains(fmt.Sprint(p), pr) != v.model.P[pi].Has(p) {
							fail("denote", "contains", fmt.Sprintf("Contains(%d,%s)=%v", p, pr, v.model.P[pi].Has(p)), "the opposite")
						}
					}
				}
				if before != nil && i != receiver && snapshot(v.real) != before[i] {
					fail("operand", "operand-modified", "operand "+fmt.Sprint(i)+" unchanged: "+before[i], snapshot(v.real))
				}
			}
		}
		snaps := func() []string {
			out := make([]string, len(pool))
			for i, v := range pool {
				out[i] = snapshot(v.real)
			}
			return out
		}
		verifyAll(-1, nil)
		steps := g.Range(4, 12)
		sawT, sawF := false, false
		for s := 0; s < steps && len(r.Violations) == 0; s++ {
			i, j := g.Intn(len(pool)), g.Intn(len(pool))
			a, b := pool[i], pool[j]
			before := snaps()
			op := rng.Pick(g, []string{"Union", "Union", "Intersection", "Intersection", "Subtract", "Subtract", "Copy"})
			r.Ev("operations", 1)
			r.Ev("op_"+op, 1)
			trace = append(trace, fmt.Sprintf("%s(%d,%d)", op, i, j))
			namedBefore := namedInvolved(a.real) || namedInvolved(b.real)
			var containedCopy, containingCopy *connlist.VerifConnectionSet
			if op == "Intersection" && namedBefore && i != j && a.real.ContainedIn(b.real) {
				containedCopy = a.real.Copy() // A contained in B: intersecting with B must leave A as it is
			}
			if op == "Intersection" && namedBefore && i != j && a.real.IsAllConnections() {
				containingCopy = b.real.Copy() // A is the full set: A intersected with B must become B, named ports and all
			}
			switch op {
			case "Union":
				a.real.Union(b.real)
				a.model.Or(b.model)
				for k := range a.names {
					for n := range b.names[k] {
						a.names[k][n] = true
					}
				}
			case "Intersection":
				a.real.Intersection(b.real)
				a.model.And(b.model)
			case "Subtract":
				a.real.Subtract(b.real)
				a.model.AndNot(b.model)
			case "Copy":
				cp := &csVal{real: b.real.Copy(), model: b.model.Clone()}
				for k := range cp.names {
					cp.names[k] = map[string]bool{}
					for n := range b.names[k] {
						cp.names[k][n] = true
					}
				}
				if !cp.real.Equal(b.real) || cp.real.String() != b.real.String() {
					fail("equal", "copy-not-equal", "Copy Equal to and printed like its source", cp.real.String()+" vs "+b.real.String())
				}
				pool[i] = cp
				a = cp
				before[i] = snapshot(cp.real)
			}
			if i == j && op != "Copy" {
				// x op x : receiver is also the operand; only the denotation is checked
				before = nil
			}
			if containedCopy != nil {
				r.Ev("named_intersection_law_checked", 1)
				if !a.real.Equal(containedCopy) {
					fail("denote", "intersection-with-superset-changes-set", "A unchanged by intersecting it with a set that contains it", snapshot(containedCopy)+" became "+snapshot(a.real)+" after intersecting with "+snapshot(b.real))
				}
			}
			if containingCopy != nil {
				r.Ev("named_intersection_law_checked", 1)
				if !a.real.Equal(containingCopy) {
					fail("denote", "intersection-of-the-full-set-is-not-the-operand", "the full set intersected with B equals B", snapshot(a.real)+" where B was "+snapshot(containingCopy))
				}
			}
			if namedBefore && op == "Union" && i != j {
				// laws of union that hold under every reading of a named port: the result contains both operands (the right operand is
				// still at hand; the left one is the receiver itself)
				r.Ev("named_union_law_checked", 1)
				if !b.real.ContainedIn(a.real) {
					fail("denote", "union-does-not-contain-operand", "B contained in A united with B", snapshot(b.real)+" not contained in "+snapshot(a.real))
				}
			}
			if namedBefore && op == "Subtract" && i != j {
				// a law of set difference that holds under every reading of a named port: what is left of A after removing B shares
				// no point with B, so a non-empty difference is never contained in the subtrahend
				r.Ev("named_difference_law_checked", 1)
				if !a.real.IsEmpty() && a.real.ContainedIn(b.real) {
					fail("denote", "difference-contained-in-subtrahend", "A minus B is empty or not contained in B", "non-empty "+snapshot(a.real)+" contained in "+snapshot(b.real))
				}
			}
			if namedBefore {
				// the statement gives no denotation to operations that mix names and numbers: re-read the numeric part from the value
				// and keep checking the other clauses
				if d, _ := denotation(a.real); true {
					if op == "Union" && !d.Equal(a.model) && !a.real.AllowAll {
						fail("denote", "union-numeric-part", a.model.String(), d.String())
					}
					a.model = d
				}
			}
			if before != nil && before[i] != snapshot(a.real) {
				changedAny = true
			}
			verifyAll(i, before)
			// comparison queries against the model (numeric-only operands)
			x, y := pool[g.Intn(len(pool))], pool[g.Intn(len(pool))]
			if !namedInvolved(x.real) && !namedInvolved(y.real) {
				want := x.model.SubsetOf(y.model)
				if x.real.ContainedIn(y.real) != want {
					fail("compare", "containedin", fmt.Sprintf("ContainedIn=%v for %s in %s", want, x.model, y.model), "the opposite")
				}
				if want {
					sawT = true
					r.Ev("containedin_true", 1)
				} else {
					sawF = true
					r.Ev("containedin_false", 1)
				}
				eq := x.model.Equal(y.model)
				if x.real.Equal(y.real) != eq {
					fail("equal", "equal", fmt.Sprintf("Equal=%v for %s and %s", eq, x.model, y.model), "the opposite: "+snapshot(x.real)+" vs "+snapshot(y.real))
				}
				if eq {
					r.Ev("equal_true", 1)
					if x.real.String() != y.real.String() {
						fail("equal", "print", "equal sets print identically", x.real.String()+" vs "+y.real.String())
					}
				}
			} else {
				// containment clause for named ports
				for pi, pr := range c11Protos {
					xp := x.real.AllowedProtocols[pr]
					if xp == nil {
						continue
					}
					for n := range xp.NamedPorts {
						yp := y.real.AllowedProtocols[pr]
						lacksName := yp == nil || !yp.NamedPorts[n]
						lacksFull := !y.real.AllowAll && !y.model.P[pi].IsFull()
						if lacksName && lacksFull {
							r.Ev("named_containment_clause_checked", 1)
							if x.real.ContainedIn(y.real) {
								fail("compare", "named-contained", "a set holding named port "+n+" is not contained in a set lacking that name and the full range",
									"ContainedIn=true: "+snapshot(x.real)+" in "+snapshot(y.real))
							}
						}
					}
				}
			}
			// aliasing probe: mutate one member, nobody else may change
			k := g.Intn(len(pool))
			pb := snaps()
			probe := connlist.VerifMakeConnectionSet(false)
			pp := connlist.VerifMakePortSet(false)
			pnum := rng.Pick(g, []int{12345, 80, 1})
			pp.AddPort(intstr.FromInt32(int32(pnum)))
			ppi := g.Intn(3)
			probe.AddConnection(c11Protos[ppi], pp)
			if ps := pool[k].real.AllowedProtocols[c11Protos[ppi]]; ps != nil && g.P(0.4) {
				// in-place mutators of the port set, as the rule-scanning and named-port-conversion code uses them
				if g.P(0.5) {
					ps.AddPort(intstr.FromInt32(int32(pnum)))
				} else {
					ps.AddPortRange(int64(pnum), int64(pnum))
				}
				pool[k].model.P[ppi].AddRange(pnum, pnum)
				r.Ev("alias_probes_in_place", 1)
				if pool[k].model.IsFull() {
					// a full set assembled by raw port insertion and never passed through Union is not an operand (see assumptions)
					pool[k].real.Union(connlist.VerifMakeConnectionSet(false))
					empty := connlist.VerifMakeConnectionSet(false)
					empty.Union(pool[k].real)
					pool[k].real = empty
				}
			} else if g.P(0.5) {
				pool[k].real.Union(probe)
				pool[k].model.P[ppi].AddRange(pnum, pnum)
			} else {
				pool[k].real.Subtract(probe)
				var one refmodel.PSet
				one.AddRange(pnum, pnum)
				for w := range one {
					pool[k].model.P[ppi][w] &^= one[w]
				}
			}
			if namedInvolved(pool[k].real) {
				pool[k].model, _ = denotation(pool[k].real)
			}
			r.Ev("alias_probes", 1)
			trace = append(trace, fmt.Sprintf("probe(%d)", k))
			for q, v := range pool {
				if q != k && snapshot(v.real) != pb[q] {
					fail("alias", "aliased", fmt.Sprintf("value %d unaffected by a mutation of value %d", q, k), pb[q]+" became "+snapshot(v.real))
				}
			}
			verifyAll(k, pb)
		}
		if sawT && sawF {
			bothWays = true
		}
		hashes = append(hashes, fmt.Sprintf("%x", rngHash(strings.Join(trace, ";"))))
		if prog == 0 && c.Idx%97 == 0 {
			r.SetSample(map[string]interface{}{"program": trace})
		}
	}
	r.Hash = strings.Join(hashes[:min(4, len(hashes))], "")
	r.Effective = changedAny
	r.NonTrivial = changedAny && bothWays
}

func hasNames(c *connlist.VerifConnectionSet) bool {
	for _, ps := range c.AllowedProtocols {
		if len(ps.NamedPorts) > 0 {
			return true
		}
	}
	return false
}

func hasExcludedNames(c *connlist.VerifConnectionSet) bool {
	for _, ps := range c.AllowedProtocols {
		if len(ps.ExcludedNamedPorts) > 0 {
			return true
		}
	}
	return false
}
