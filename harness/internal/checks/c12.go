package checks

import (
	"fmt"
	"os"
	"path/filepath"
	"sort"
	"strings"

	"sigs.k8s.io/yaml"

	"verif/harness/internal/observe"
	"verif/harness/internal/rng"
	"verif/harness/internal/run"
	"verif/harness/internal/world"
)

// ---- base documents: one per kind x shape, deterministic

func c12BaseWorld() *world.World {
	two, zero := 2, 0
	w := &world.World{
		Namespaces: []world.Namespace{{Name: "ns1", HasObj: true, Labels: map[string]string{"env": "a"}}, {Name: "ns2", HasObj: true, Labels: map[string]string{"env": "b"}}},
		Workloads: []world.Workload{
			{Ns: "ns1", Name: "dep", Kind: world.KDeployment, Labels: map[string]string{"app": "a"}, Ports: []world.CPort{{Num: 80, Name: "http"}, {Num: 53, Proto: "UDP", Name: "dns"}}, Replicas: &two},
			{Ns: "ns1", Name: "rs", Kind: world.KReplicaSet, Labels: map[string]string{"app": "b"}, Ports: []world.CPort{{Num: 8080}}, Replicas: &zero},
			{Ns: "ns1", Name: "sts", Kind: world.KStatefulSet, Labels: map[string]string{"app": "c", "tier": "a"}},
			{Ns: "ns2", Name: "ds", Kind: world.KDaemonSet, Labels: map[string]string{"app": "a"}, Ports: []world.CPort{{Num: 443, Proto: "TCP"}}},
			{Ns: "ns2", Name: "job", Kind: world.KJob, Labels: map[string]string{"tier": "b"}, Replicas: &two},
			{Ns: "ns2", Name: "cron", Kind: world.KCronJob, Labels: map[string]string{"tier": "c"}},
			{Ns: "ns2", Name: "rc", Kind: world.KRC, Labels: map[string]string{"app": "b", "env": "a"}, Ports: []world.CPort{{Num: 81, Name: "metrics"}}},
			{Ns: "ns1", Name: "pod", Kind: world.KPod, Labels: map[string]string{"app": "a", "env": "c"}, Ports: []world.CPort{{Num: 80, Name: "http"}}},
			{Ns: "ns1", Name: "owned", Kind: world.KOwnedPods, NPods: 1, OwnerKind: world.KReplicaSet, Labels: map[string]string{"app": "c"}},
			{Ns: "ns2", Name: "bare", Kind: world.KPod}, // a pod without any label
		},
	}
	w.NetPols = []world.NetPol{{Ns: "ns1", Name: "np", PodSel: world.Sel{ML: map[string]string{"app": "a"}, ME: []world.Req{{Key: "env", Op: "NotIn", Vals: []string{"b"}}}},
		HasTypes: true, PolicyTypes: []string{"Ingress", "Egress"},
		Ingress: []world.NPRule{{Peers: []world.NPPeer{{PodSel: &world.Sel{ML: map[string]string{"app": "b"}}, NsSel: &world.Sel{ME: []world.Req{{Key: "env", Op: "Exists"}}}},
			{IPBlock: &world.IPB{CIDR: "10.0.0.0/8", Except: []string{"10.1.0.0/16"}}}}, Ports: []world.NPPort{{Proto: "TCP", Port: 80, EndPort: 90}, {Name: "http"}, {Proto: "UDP"}}}},
		Egress: []world.NPRule{{Peers: []world.NPPeer{{NsSel: &world.Sel{}}}, Ports: []world.NPPort{{Port: 53, Proto: "UDP"}}}, {}}}}
	// a policy selecting every pod of ns2 (the label-less one too) whose rule peers are pod selectors nobody satisfies (exposure analysis
	// creates label-less representative pods of ns2 for them)
	w.NetPols = append(w.NetPols, world.NetPol{Ns: "ns2", Name: "np-all", PodSel: world.Sel{},
		Ingress: []world.NPRule{{Peers: []world.NPPeer{{PodSel: &world.Sel{ML: map[string]string{"app": "nobody"}}}}, Ports: []world.NPPort{{Port: 443}}}},
		Egress:  []world.NPRule{{Peers: []world.NPPeer{{PodSel: &world.Sel{ME: []world.Req{{Key: "app", Op: "NotIn", Vals: []string{"a", "b"}}, {Key: "tier", Op: "DoesNotExist"}}}}}}}})
	w.ANPs = []world.ANP{{Name: "anp", Priority: 10, Subject: world.Subject{PodsNs: &world.Sel{ML: map[string]string{"env": "a"}}, PodsPod: &world.Sel{}},
		Ingress: []world.ANPRule{{Name: "r0", Action: "Allow", Peers: []world.Subject{{Namespaces: &world.Sel{}}}, HasPorts: true,
			Ports: []world.ANPPort{{Kind: "num", Proto: "TCP", Port: 80}, {Kind: "range", Proto: "UDP", Port: 1, End: 100}, {Kind: "named", Name: "http"}}}},
		Egress: []world.ANPRule{{Name: "e0", Action: "Pass", Peers: []world.Subject{{PodsNs: &world.Sel{}, PodsPod: &world.Sel{ML: map[string]string{"app": "b"}}}}}}}}
	w.BANP = &world.BANP{Name: "default", Subject: world.Subject{Namespaces: &world.Sel{}},
		Ingress: []world.ANPRule{{Name: "b0", Action: "Deny", Peers: []world.Subject{{Namespaces: &world.Sel{ML: map[string]string{"env": "b"}}}}}}}
	w.Services = []world.Service{{Ns: "ns1", Name: "svc", Selector: map[string]string{"app": "a"}, Ports: []world.SvcPort{{Name: "web", Port: 8080, TargetName: "http"}, {Name: "adm", Port: 81, TargetNum: 80}}}}
	w.Ingresses = []world.Ingress{{Ns: "ns1", Name: "ing", Default: &world.Backend{Svc: "svc", PortNum: 8080}, Rules: [][]world.Backend{{{Svc: "svc", PortName: "web"}}}}}
	w.Routes = []world.Route{{Ns: "ns1", Name: "route", To: "svc", Alternates: []string{"svc"}, TargetName: "web"}}
	return w
}

// exposure analysis refuses admin policies: the exposure entry points get the base without them
func c12BaseDocs() []world.Doc { return c12BaseWorld().Docs() }

// ---- structural mutations of a parsed YAML tree

type treeMut struct {
	Path string
	Op   string
}

func enumPaths(v interface{}, prefix string, out *[]string) {
	switch t := v.(type) {
	case map[string]interface{}:
		keys := make([]string, 0, len(t))
		for k := range t {
			keys = append(keys, k)
		}
		sort.Strings(keys)
		for _, k := range keys {
			p := prefix + "/" + k
			*out = append(*out, p)
			enumPaths(t[k], p, out)
		}
	case []interface{}:
		for i := range t {
			p := fmt.Sprintf("%s/%d", prefix, i)
			*out = append(*out, p)
			enumPaths(t[i], p, out)
		}
	}
}

var treeOps = []string{"drop", "null", "retype", "empty", "corner"}

func cornerValue(key string, old interface{}, g *rng.R) interface{} {
	switch key {
	case "hostIP", "podIP", "ip":
		return rng.Pick(g, []string{"::1", "fe80::1", "not-an-ip", "", "999.1.1.1", "10.0.0.1/33"})
	case "cidr":
		return rng.Pick(g, []string{"10.0.0.0/33", "::/0", "garbage", "10.0.0.0", "2001:db8::/32"})
	case "port", "containerPort", "endPort", "targetPort", "number", "start", "end", "priority", "replicas", "parallelism":
		return rng.Pick(g, []interface{}{-1, 0, 65536, 70000, 2147483647, "80", 1.5})
	case "protocol":
		return rng.Pick(g, []string{"ICMP", "tcp", ""})
	case "operator":
		return rng.Pick(g, []string{"Equals", "", "in"})
	case "action":
		return rng.Pick(g, []string{"Pass", "Reject", ""})
	case "kind":
		return rng.Pick(g, []string{"", "Unknown", "List"})
	case "controller":
		return nil
	case "name", "namespace":
		// besides malformed names: the names the tool gives to its own synthetic objects (the ingress-controller pod and its namespace, the
		// representative pods of exposure analysis) are valid names a user may have chosen too
		return rng.Pick(g, []interface{}{"", "UPPER_case!", strings.Repeat("x", 300), 7, "ingress-controller-ns", "ingress-controller-ns", "ingress-controller", "representative-pod"})
	}
	switch old.(type) {
	case string:
		return strings.Repeat("A", 70000)
	case float64, int, int64:
		return -old.(float64)
	}
	return "corner"
}

func retype(v interface{}) interface{} {
	switch t := v.(type) {
	case map[string]interface{}:
		return []interface{}{"was-a-map"}
	case []interface{}:
		return map[string]interface{}{"was": "a-list"}
	case string:
		return 12345
	case float64, int, int64:
		return "twelve"
	case bool:
		return "true-ish"
	default:
		_ = t
		return map[string]interface{}{"was": "null"}
	}
}

func emptyOf(v interface{}) interface{} {
	switch v.(type) {
	case map[string]interface{}:
		return map[string]interface{}{}
	case []interface{}:
		return []interface{}{}
	case string:
		return ""
	default:
		return 0
	}
}

// applyMut applies one mutation at a path; returns false if the path does not exist.
func applyMut(root interface{}, path, op string, g *rng.R) (interface{}, bool) {
	parts := strings.Split(strings.TrimPrefix(path, "/"), "/")
	var rec func(v interface{}, i int) (interface{}, bool, bool) // new value, ok, drop
	rec = func(v interface{}, i int) (interface{}, bool, bool) {
		if i == len(parts) {
			switch op {
			case "drop":
				return nil, true, true
			case "null":
				return nil, true, false
			case "retype":
				return retype(v), true, false
			case "empty":
				return emptyOf(v), true, false
			default:
				return cornerValue(parts[len(parts)-1], v, g), true, false
			}
		}
		switch t := v.(type) {
		case map[string]interface{}:
			child, ok := t[parts[i]]
			if !ok {
				return v, false, false
			}
			nv, ok, drop := rec(child, i+1)
			if !ok {
				return v, false, false
			}
			if drop {
				delete(t, parts[i])
			} else {
				t[parts[i]] = nv
			}
			return t, true, false
		case []interface{}:
			var idx int
			if _, err := fmt.Sscanf(parts[i], "%d", &idx); err != nil || idx < 0 || idx >= len(t) {
				return v, false, false
			}
			nv, ok, drop := rec(t[idx], i+1)
			if !ok {
				return v, false, false
			}
			if drop {
				t = append(t[:idx], t[idx+1:]...)
			} else {
				t[idx] = nv
			}
			return t, true, false
		}
		return v, false, false
	}
	nv, ok, _ := rec(root, 0)
	return nv, ok
}

type c12Case struct {
	Doc  int
	Path string
	Op   string
}

var c12Enum []c12Case

func c12Enumerate() []c12Case {
	if c12Enum != nil {
		return c12Enum
	}
	docs := c12BaseDocs()
	for di, d := range docs {
		var tree interface{}
		if err := yaml.Unmarshal([]byte(d.YAML), &tree); err != nil {
			continue
		}
		paths := []string{}
		enumPaths(tree, "", &paths)
		for _, p := range paths {
			for _, op := range treeOps {
				c12Enum = append(c12Enum, c12Case{di, p, op})
			}
		}
	}
	return c12Enum
}

func init() {
	run.Register(&run.Check{
		ID:    "C12",
		Level: "exploration",
		Rule: "cases: (1) the exhaustive list of single structural mutations - every field path of 25 base documents (one per kind x shape: Namespace, the nine workload expressions, NetworkPolicy, ANP, BANP, Service, Ingress, Route) x {drop, null, retype, empty, corner value (IPv6/garbage addresses, out-of-range numbers, unknown enum values, absent controller flag, 70 kB strings)}; (2) sampled multi-mutations (2-4 at once) of the same documents and of generated worlds, and single/double mutations of documents of the repository's own manifest directories, next to valid documents using the tool's own synthetic names and admin policies with the API's other peer kinds (networks, nodes) under every kind of port entry; (3) byte-level mutations (truncation, bit flips, BOM, CRLF, tabs, deep nesting, duplicated documents, blank kind/metadata); every mutated input is run through list, list --exposure, diff (both sides), the eval engine with queries, and - on a slice - the binary; " +
			"(tail of the list) valid generated worlds of four families - a sealed cluster in which the exposure analysis has nothing to report, NetworkPolicy worlds with Service/Ingress/Route objects, admin-policy worlds, worlds of all nine workload expressions - analysed with and without exposure in all five list formats and diffed against a single-step edit in all four diff formats; " +
			"oracle: the Go runtime's own checks observed at the boundary: a recovered panic, a dead worker process, a watchdog expiry or a crashing binary refute the property; errors are fine; " +
			"non-trivial = the mutated input was still parsed far enough to reach the analysis (some entry point returned a result or an error other than a pure scan failure) and differs from the base; distinct = (document, path, operation) / mutation hash",
		Assumptions: []string{"the worker's recover() and the driver's journal see every crash (a dying worker is attributed to the journalled case)", "watchdog: 180 s per case"},
		NumCases: func(tier string, _ int64) int {
			n := len(c12Enumerate())
			return tierN(tier, n+600, n+60000) + tierN(tier, 240, 12000)
		},
		Run:               runC12,
		RaceSliceCases:    6000,
		NeedsBinary:       true,
		CrashIsViolation:  true,
		MinNonTrivial:     1000,
		MinEffectiveShare: 0.5,
		RequiredEvents:    map[string]int64{"entry_point_runs": 10000, "single_mutations": 1500, "multi_mutations": 150, "byte_mutations": 100, "fixture_mutations": 80, "binary_runs": 100, "results_returned": 1000, "errors_returned": 300},
	})
}

// crashSite names the first repository frame of a recovered stack (used to keep distinct crash sites apart).
func crashSite(stack string) string {
	for _, line := range strings.Split(stack, "\n") {
		line = strings.TrimSpace(line)
		i := strings.Index(line, "github.com/np-guard/netpol-analyzer/")
		if i != 0 {
			continue
		}
		s := line
		for _, cut := range []string{"(0x", "({", "(...", "()"} {
			if j := strings.Index(s, cut); j >= 0 {
				s = s[:j]
			}
		}
		if j := strings.LastIndex(s, "/"); j >= 0 {
			s = s[j+1:]
		}
		return strings.NewReplacer("(", "", ")", "", "*", "", " ", "").Replace(s)
	}
	return "unknown-site"
}

func runC12(c *run.Ctx) {
	r := c.Res
	enum := c12Enumerate()
	if base := len(enum) + tierN(c.Tier, 600, 60000); c.Idx >= base { // tail of the list: VALID inputs of unusual shapes through every format
		runC12Valid(c, c.Idx-base)
		return
	}
	g := c.R("mut")
	base := c12BaseDocs()
	docs := append([]world.Doc(nil), base...)
	desc := ""
	var rawFile []byte // byte-level mutants are written verbatim
	switch {
	case c.Idx < len(enum):
		m := enum[c.Idx]
		var tree interface{}
		_ = yaml.Unmarshal([]byte(docs[m.Doc].YAML), &tree)
		nt, ok := applyMut(tree, m.Path, m.Op, g)
		if !ok {
			r.Discarded = "path vanished"
			return
		}
		b, err := yaml.Marshal(nt)
		if err != nil {
			r.Discarded = "marshal: " + err.Error()
			return
		}
		docs[m.Doc].YAML = string(b)
		desc = fmt.Sprintf("%s %s %s", base[m.Doc].Kind+"/"+base[m.Doc].Name, m.Op, m.Path)
		r.Ev("single_mutations", 1)
		r.Hash = desc
	case (c.Idx-len(enum))%5 == 3:
		// structural mutation of one document of one of the repository's own manifest directories
		fx := fixtureFor(c.Repo, g.Intn(1000))
		if fx == "" || filepath.Base(fx) == "ipblockstest_4" {
			r.Discarded = "no fixture"
			return
		}
		fdir := c.Dir("fixture")
		if err := copyDir(fx, fdir); err != nil {
			r.Discarded = err.Error()
			return
		}
		files := []string{}
		_ = filepath.Walk(fdir, func(p string, info os.FileInfo, err error) error {
			if err == nil && !info.IsDir() && (strings.HasSuffix(p, ".yaml") || strings.HasSuffix(p, ".yml")) {
				files = append(files, p)
			}
			return nil
		})
		if len(files) == 0 {
			r.Discarded = "fixture without yaml"
			return
		}
		sort.Strings(files)
		f := rng.Pick(g, files)
		raw, _ := os.ReadFile(f)
		parts := strings.Split(string(raw), "\n---")
		ds := []string{}
		for n := g.Range(1, 2); n > 0; n-- {
			di := g.Intn(len(parts))
			var tree interface{}
			if yaml.Unmarshal([]byte(parts[di]), &tree) != nil || tree == nil {
				continue
			}
			paths := []string{}
			enumPaths(tree, "", &paths)
			if len(paths) == 0 {
				continue
			}
			p, op := rng.Pick(g, paths), rng.Pick(g, treeOps)
			if nt, ok := applyMut(tree, p, op, g); ok {
				if b, err := yaml.Marshal(nt); err == nil {
					parts[di] = "\n" + string(b)
					ds = append(ds, fmt.Sprintf("%s doc %d %s %s", filepath.Base(f), di, op, p))
				}
			}
		}
		_ = os.WriteFile(f, []byte(strings.Join(parts, "\n---")), 0o644)
		desc = "fixture " + filepath.Base(fx) + ": " + strings.Join(ds, " + ")
		r.Ev("fixture_mutations", 1)
		r.Hash = fmt.Sprintf("fixture-%x", rngHash(desc))
		r.Name = desc
		c12RunEntryPoints(c, fdir, fdir, fx, desc, nil, true)
		return
	case (c.Idx-len(enum))%5 != 4:
		// multi-mutation, of the base documents or of a generated world
		if g.P(0.4) {
			cfg := world.DefaultCfg()
			cfg.Kinds = world.AllWorkloadKinds
			cfg.NamedEgressIP = 0
			w := world.GenNPWorld(g, cfg)
			if g.P(0.5) {
				world.GenIngressResources(g, w)
			}
			if g.P(0.4) {
				world.GenAdmin(g, w, cfg, 1, 2, 0.5)
			}
			docs = w.Docs()
		}
		ds := []string{}
		if g.P(0.25) {
			// valid documents that use the names the tool gives to its own synthetic objects: a policy living in (and selecting the
			// pods of) the synthetic ingress-controller namespace, a real pod named like the synthetic one, a workload named like
			// the representative pods of exposure analysis
			icns := world.NetPol{Ns: "ingress-controller-ns", Name: "in-synthetic-ns", PodSel: world.Sel{},
				Ingress: []world.NPRule{{Peers: []world.NPPeer{{NsSel: &world.Sel{}}}, Ports: []world.NPPort{{Port: 80}}}},
				Egress:  []world.NPRule{{Peers: []world.NPPeer{{NsSel: &world.Sel{}}}, Ports: []world.NPPort{{Port: 8080}}}, {Peers: []world.NPPeer{{PodSel: &world.Sel{ML: map[string]string{"app": "nobody"}}}}}}}
			if g.P(0.7) {
				docs = append(docs, world.NetPolDoc(&icns))
				ds = append(ds, "NetworkPolicy in ingress-controller-ns")
			}
			if g.P(0.4) {
				pod := world.Workload{Ns: "ingress-controller-ns", Name: "ingress-controller", Kind: world.KPod, Labels: map[string]string{"app": "a"}, Ports: []world.CPort{{Num: 80}}}
				docs = append(docs, world.WorkloadDocs(&pod)...)
				ds = append(ds, "Pod ingress-controller-ns/ingress-controller")
			}
			if g.P(0.4) {
				rep := world.Workload{Ns: "ns1", Name: "representative-pod", Kind: rng.Pick(g, []string{world.KPod, world.KDeployment}), Labels: map[string]string{"app": "b"}}
				docs = append(docs, world.WorkloadDocs(&rep)...)
				ds = append(ds, "workload named representative-pod")
			}
			r.Ev("inputs_using_the_tools_synthetic_names", 1)
		}
		if g.P(0.2) {
			// valid (API-admissible) admin policies using peer kinds of the API that the tool may or may not support: egress towards
			// address blocks (networks) or nodes, alone or next to a pods / namespaces peer, with every kind of port entry
			peer := rng.Pick(g, []string{"networks: [\"10.0.0.0/8\"]", "networks: [\"0.0.0.0/0\", \"10.1.2.0/24\"]", "nodes: {matchLabels: {kubernetes.io/os: linux}}", "networks: [\"192.168.49.2/32\"]"})
			if g.P(0.4) {
				peer += "}\n    - {namespaces: {}"
			}
			ports := rng.Pick(g, []string{"", "    ports:\n    - namedPort: " + rng.Pick(g, world.PortNames) + "\n",
				"    ports:\n    - portNumber: {protocol: TCP, port: 80}\n    - namedPort: " + rng.Pick(g, world.PortNames) + "\n",
				"    ports:\n    - portNumber: {protocol: TCP, port: 8080}\n", "    ports:\n    - portRange: {protocol: UDP, start: 1, end: 100}\n"})
			kind, name, pri := "AdminNetworkPolicy", "to-other-peer-kinds", fmt.Sprintf("  priority: %d\n", g.Range(0, 1000))
			if g.P(0.25) {
				kind, name, pri = "BaselineAdminNetworkPolicy", "default", ""
			}
			action := rng.Pick(g, []string{"Allow", "Deny"})
			y := "apiVersion: policy.networking.k8s.io/v1alpha1\nkind: " + kind + "\nmetadata: {name: " + name + "}\nspec:\n" + pri + "  subject: {namespaces: {}}\n" +
				"  egress:\n  - name: e\n    action: " + action + "\n    to:\n    - {" + peer + "}\n" + ports
			docs = append(docs, world.Doc{Kind: kind, Name: name, YAML: y})
			ds = append(ds, kind+" with a networks / nodes egress peer")
			r.Ev("inputs_with_other_admin_peer_kinds", 1)
		}
		for n := g.Range(0, 3); n > 0; n-- {
			di := g.Intn(len(docs))
			var tree interface{}
			if yaml.Unmarshal([]byte(docs[di].YAML), &tree) != nil {
				continue
			}
			paths := []string{}
			enumPaths(tree, "", &paths)
			if len(paths) == 0 {
				continue
			}
			p, op := rng.Pick(g, paths), rng.Pick(g, treeOps)
			if nt, ok := applyMut(tree, p, op, g); ok {
				if b, err := yaml.Marshal(nt); err == nil {
					docs[di].YAML = string(b)
					ds = append(ds, fmt.Sprintf("%s %s %s", docs[di].Kind, op, p))
				}
			}
		}
		desc = strings.Join(ds, " + ")
		r.Ev("multi_mutations", 1)
		r.Hash = fmt.Sprintf("multi-%x", rngHash(desc+docs[0].YAML))
	default:
		parts := make([]string, len(docs))
		for i, d := range docs {
			parts[i] = d.YAML
		}
		all := []byte(strings.Join(parts, "---\n"))
		kind := rng.Pick(g, []string{"truncate", "bitflip", "bom", "crlf", "tabs", "deepnest", "dupdoc", "blankkind", "blankmeta", "hugescalar", "nul"})
		switch kind {
		case "truncate":
			all = all[:g.Intn(len(all))]
		case "bitflip":
			for n := g.Range(1, 8); n > 0; n-- {
				i := g.Intn(len(all))
				all[i] ^= 1 << uint(g.Intn(8))
			}
		case "bom":
			all = append([]byte{0xEF, 0xBB, 0xBF}, all...)
		case "crlf":
			all = []byte(strings.ReplaceAll(string(all), "\n", "\r\n"))
		case "tabs":
			all = []byte(strings.Replace(string(all), "  ", "\t", g.Range(1, 5)))
		case "deepnest":
			all = append(all, []byte("---\napiVersion: v1\nkind: Pod\nmetadata:\n  name: deep\nspec: "+strings.Repeat("{a: ", 2000)+"1"+strings.Repeat("}", 2000)+"\n")...)
		case "dupdoc":
			all = append(all, []byte("---\n"+parts[g.Intn(len(parts))])...)
		case "blankkind":
			all = []byte(strings.Replace(string(all), "kind: "+docs[g.Intn(len(docs))].Kind, "kind: \"\"", 1))
		case "blankmeta":
			all = []byte(strings.Replace(string(all), "metadata:", "metadata: null\nx:", 1))
		case "hugescalar":
			all = append(all, []byte("---\napiVersion: v1\nkind: ConfigMap\nmetadata: {name: big}\ndata: {k: \""+strings.Repeat("z", 1<<20)+"\"}\n")...)
		case "nul":
			all[g.Intn(len(all))] = 0
		}
		rawFile = all
		desc = "bytes:" + kind
		r.Ev("byte_mutations", 1)
		r.Hash = fmt.Sprintf("bytes-%s-%x", kind, rngHash(string(all[:min(len(all), 4000)])))
	}
	r.Name = desc
	dir, dirB := c.Dir("input"), c.Dir("base")
	if rawFile != nil {
		_ = os.WriteFile(filepath.Join(dir, "all.yaml"), rawFile, 0o644)
	} else if err := world.WriteDocs(dir, docs, world.LayoutCanonial, nil); err != nil {
		r.Discarded = err.Error()
		return
	}
	_ = world.WriteDocs(dirB, base, world.LayoutCanonial, nil)
	// the exposure entry point gets the input without admin policies (it refuses them up front)
	dirX := c.Dir("input-noadmin")
	if rawFile != nil {
		_ = os.WriteFile(filepath.Join(dirX, "all.yaml"), rawFile, 0o644)
	} else {
		nd := []world.Doc{}
		for _, d := range docs {
			if d.Kind != "AdminNetworkPolicy" && d.Kind != "BaselineAdminNetworkPolicy" {
				nd = append(nd, d)
			}
		}
		_ = world.WriteDocs(dirX, nd, world.LayoutCanonial, nil)
	}
	reached := c12RunEntryPoints(c, dir, dirX, dirB, desc, rawFile, false)
	r.Effective = reached
	r.NonTrivial = reached
	if c.Idx%397 == 0 || len(r.Violations) > 0 {
		mutated := ""
		if rawFile != nil {
			mutated = string(rawFile[:min(len(rawFile), 1500)])
		} else if c.Idx < len(enum) {
			mutated = docs[enum[c.Idx].Doc].YAML
		}
		r.SetSample(map[string]interface{}{"mutation": desc, "mutated_document": mutated, "analysis_reached": reached})
	}
}

// c12RunEntryPoints drives every entry point over one (mutated) input and records crashes; returns whether the analysis was reached.
func c12RunEntryPoints(c *run.Ctx, dir, dirX, dirB, desc string, rawFile []byte, fixture bool) bool {
	r := c.Res
	reached := false
	crash := func(entry, stack string) {
		site := crashSite(stack)
		r.Violate("c12.panic", "c12.panic:"+site+":panic", "a result and/or a reported error", "panic in "+entry+": "+firstLines(stack, 14), desc)
	}
	note := func(hasErr bool, err string, n int) {
		r.Ev("entry_point_runs", 1)
		if hasErr {
			r.Ev("errors_returned", 1)
			if !strings.Contains(err, "error reading file") && !strings.Contains(err, "unable to decode") {
				reached = true
			}
		} else {
			r.Ev("results_returned", 1)
			reached = true
		}
	}
	l1 := observe.List(dir, observe.ListOpts{Format: "txt"})
	if l1.Panic != "" {
		crash("list", l1.Panic)
	}
	note(l1.HasErr, l1.Err, len(l1.Entries))
	l2 := observe.List(dirX, observe.ListOpts{Exposure: true, Format: "txt"})
	if l2.Panic != "" {
		crash("list --exposure", l2.Panic)
	}
	note(l2.HasErr, l2.Err, len(l2.Entries))
	if c.Idx%2 == 0 {
		l3 := observe.List(dir, observe.ListOpts{Format: "dot", ViaInfos: true, Focus: "dep"})
		if l3.Panic != "" {
			crash("list via infos", l3.Panic)
		}
		note(l3.HasErr, l3.Err, len(l3.Entries))
	}
	d1 := observe.Diff(dir, dirB, observe.DiffOpts{Format: "txt"})
	if d1.Panic != "" {
		crash("diff(mutated, base)", d1.Panic)
	}
	note(d1.HasErr, d1.Err, len(d1.Entries))
	if c.Idx%2 == 1 {
		d2 := observe.Diff(dirB, dir, observe.DiffOpts{Format: "md"})
		if d2.Panic != "" {
			crash("diff(base, mutated)", d2.Panic)
		}
		note(d2.HasErr, d2.Err, len(d2.Entries))
	}
	// eval engine: build from the parsed objects and ask a few questions
	objs, pp := observe.ParseDir(dir)
	if pp != "" {
		crash("parse", pp)
	} else {
		eng, cr := observe.NewEngineWithObjects(objs)
		if cr.Panic != "" {
			crash("NewPolicyEngineWithObjects", cr.Panic)
		} else if !cr.HasErr {
			for _, q := range [][2]string{{"ns1/pod", "ns1/dep-1"}, {"ns1/dep-1", "ns2/ds-1"}, {"10.1.2.3", "ns1/pod"}, {"ns1/pod", "192.168.49.2"}, {"192.168.49.2", "ns1/pod"}, {"::1", "ns1/pod"}, {"ns1/owned-x0", "ns1/pod"},
				{"ns1/pod", "2001:db8::/32"}, {"::/0", "ns1/dep-1"}, {"ns1/pod", "fe80::1"}, {"10.0.0.0/8", "ns1/pod"}, {"ns1/pod", "0.0.0.0/0"}} {
				res := eng.Check(q[0], q[1], "TCP", "80")
				r.Ev("entry_point_runs", 1)
				if res.Panic != "" {
					crash("CheckIfAllowed("+q[0]+","+q[1]+")", res.Panic)
				}
			}
		}
		// the insert route too
		e2 := observe.NewEngine()
		for i := range objs {
			if o := observe.RuntimeObject(&objs[i]); o != nil {
				if res := e2.Insert(o); res.Panic != "" {
					crash("InsertObject("+objs[i].Kind+")", res.Panic)
				}
			}
		}
		// queries on the engine filled object by object (nothing was resolved up front on this route: namespaces without manifest,
		// policies inserted before the pods they select ...)
		for _, q := range [][2]string{{"ns1/pod", "ns1/dep-1"}, {"ns1/dep-1", "ns2/ds-1"}, {"ns2/ds-1", "ns1/pod"}, {"10.1.2.3", "ns1/pod"}, {"ns1/owned-x0", "ns2/job-1"}} {
			res := e2.Check(q[0], q[1], "TCP", "80")
			r.Ev("entry_point_runs", 1)
			if res.Panic != "" {
				crash("CheckIfAllowed("+q[0]+","+q[1]+") after InsertObject", res.Panic)
			}
		}
		for i := range objs {
			if o := observe.RuntimeObject(&objs[i]); o != nil && c.Idx%3 == 0 {
				if res := e2.Delete(o); res.Panic != "" {
					crash("DeleteObject("+objs[i].Kind+")", res.Panic)
				}
			}
		}
	}
	// a slice through the binary (fatal errors and stack exhaustion are only visible there)
	if c.Idx%23 == 0 || rawFile != nil && c.Idx%3 == 0 {
		for _, args := range [][]string{{"list", "--dirpath", dir, "-q"}, {"list", "--dirpath", dirX, "-q", "--exposure", "-o", "json"}, {"diff", "--dir1", dir, "--dir2", dirB, "-q"},
			{"eval", "--dirpath", dir, "-q", "-s", "pod", "-n", "ns1", "-d", "dep-1", "--destination-namespace", "ns1", "-p", "80"}} {
			cli := observe.RunCLI(c.Bin, c.Scratch(), args...)
			r.Ev("binary_runs", 1)
			if cli.TimedOut {
				r.Violate("c12.hang", "c12.hang:binary:timeout", "termination", "binary still running after 120 s", desc+" ; "+strings.Join(args, " "))
			} else if (cli.Exit != 0 && cli.Exit != 1) || strings.Contains(cli.Stderr, "panic:") || strings.Contains(cli.Stderr, "fatal error:") {
				r.Violate("c12.panic", "c12.panic:binary-"+crashSite(cli.Stderr)+":panic", "exit 0 or 1 with a result and/or error", fmt.Sprintf("exit %d: %s", cli.Exit, firstLines(cli.Stderr, 14)), desc+" ; "+strings.Join(args, " "))
			}
		}
	}
	if fixture {
		r.Effective, r.NonTrivial = reached, reached
	}
	return reached
}

// runC12Valid: totality is claimed for every input, and the inputs most often met are valid ones. Worlds of four families go through
// every output format of list (with and without exposure) and diff; nothing may panic.
func runC12Valid(c *run.Ctx, k int) {
	r := c.Res
	g := c.R("valid")
	cfg := world.DefaultCfg()
	cfg.NamedEgressIP = 0
	cfg.MaxWorkloads = 5
	var w *world.World
	fam := []string{"sealed", "ingress", "admin", "allkinds"}[k%4]
	switch fam {
	case "sealed":
		w = world.GenSealedWorld(g)
	case "ingress":
		w = world.GenNPWorld(g, cfg)
		world.GenIngressResources(g, w)
	case "admin":
		w = world.GenPrecedenceWorld(g, cfg)
	default:
		cfg.Kinds = world.AllWorkloadKinds
		w = world.GenNPWorld(g, cfg)
	}
	r.Hash = "valid/" + w.Hash()
	r.Ev("valid_worlds_"+fam, 1)
	dir, dirB := c.Dir("input"), c.Dir("edited")
	wb, _ := world.Mutate(g, w, cfg)
	if wb == nil {
		wb = w
	}
	if w.Write(dir, c.R("layout")) != nil || wb.Write(dirB, c.R("layoutB")) != nil {
		r.Discarded = "emit"
		return
	}
	reached := false
	for _, f := range []string{"txt", "json", "csv", "md", "dot"} {
		for _, exp := range []bool{false, true} {
			l := observe.List(dir, observe.ListOpts{Format: f, Exposure: exp})
			r.Ev("entry_point_runs", 1)
			if l.Panic != "" {
				r.Violate("c12.panic", "c12.panic:"+crashSite(l.Panic)+":panic", "a result and/or a reported error", "panic in list: "+firstLines(l.Panic, 14), fmt.Sprintf("valid %s world, format %s, exposure %v", fam, f, exp))
				return
			}
			if !l.HasErr {
				r.Ev("results_returned", 1)
				reached = true
			} else {
				r.Ev("errors_returned", 1)
			}
		}
		if f == "json" {
			continue
		}
		d := observe.Diff(dir, dirB, observe.DiffOpts{Format: f})
		r.Ev("entry_point_runs", 1)
		if d.Panic != "" {
			r.Violate("c12.panic", "c12.panic:"+crashSite(d.Panic)+":panic", "a result and/or a reported error", "panic in diff: "+firstLines(d.Panic, 14), fmt.Sprintf("valid %s world, format %s", fam, f))
			return
		}
	}
	r.Effective, r.NonTrivial = reached, reached
}
