package checks

import (
	"fmt"
	"os"
	"path/filepath"
	"strings"

	"verif/harness/internal/observe"
	"verif/harness/internal/rng"
	"verif/harness/internal/run"
	"verif/harness/internal/world"
)

type junkCell struct {
	Kind      string
	Placement string // file | first | middle | last
	Bad       bool   // must produce a severe entry
	Fatal     bool
}

var junkDocs = map[string]string{
	// a Service that passes schema conversion but whose selector is no legal label selector (a value with a space): the analysis of
	// Services / Ingresses / Routes cannot be built - a fatal error, not a severe one
	"badsvcselector": "apiVersion: v1\nkind: Service\nmetadata: {name: \"legacy-svc\", namespace: \"default\"}\nspec:\n  selector: {app: \"legacy app\"}\n  ports: [{port: 80}]\n",
	"configmap":      "apiVersion: v1\nkind: ConfigMap\nmetadata: {name: \"cm\", namespace: \"ns1\"}\ndata: {\"k\": \"v\"}\n",
	"secret":         "apiVersion: v1\nkind: Secret\nmetadata: {name: \"s\", namespace: \"ns1\"}\ntype: Opaque\ndata: {\"p\": \"cGFzcw==\"}\n",
	"crdinstance":    "apiVersion: example.com/v1\nkind: Widget\nmetadata: {name: \"w\", namespace: \"ns1\"}\nspec: {podSelector: {}, size: 3}\n",
	"openshift":      "apiVersion: apps.openshift.io/v1\nkind: DeploymentConfig\nmetadata: {name: \"dc\", namespace: \"ns1\"}\nspec: {replicas: 1, selector: {app: \"dc\"}, template: {metadata: {labels: {app: \"dc\"}}, spec: {containers: [{name: c, image: i}]}}}\n",
	"list":           "apiVersion: v1\nkind: ServiceAccount\nmetadata: {name: \"sa\", namespace: \"ns2\"}\n",
	"kustomization":  "apiVersion: kustomize.config.k8s.io/v1beta1\nkind: Kustomization\nresources: [\"all.yaml\"]\ncommonLabels: {\"team\": \"x\"}\n",
	"kubeconfig":     "apiVersion: v1\nkind: Config\nclusters: []\ncontexts: []\ncurrent-context: \"\"\nusers: []\n",
	// resources of analysed kinds that fail schema conversion
	"badnetpol": "apiVersion: networking.k8s.io/v1\nkind: NetworkPolicy\nmetadata: {name: \"broken-np\", namespace: \"ns1\"}\nspec:\n  podSelector: \"everything\"\n  ingress: [{}]\n",
	"baddeploy": "apiVersion: apps/v1\nkind: Deployment\nmetadata: {name: \"broken-dep\", namespace: \"ns1\"}\nspec:\n  replicas: \"three\"\n  selector: {matchLabels: {app: \"x\"}}\n  template: {metadata: {labels: {app: \"x\"}}, spec: {containers: [{name: c, image: i}]}}\n",
	"badpod":    "apiVersion: v1\nkind: Pod\nmetadata: {name: \"broken-pod\", namespace: \"ns1\", labels: [\"a\", \"b\"]}\nspec: {containers: [{name: c, image: i}]}\n",
	"badanp":    "apiVersion: policy.networking.k8s.io/v1alpha1\nkind: AdminNetworkPolicy\nmetadata: {name: \"broken-anp\"}\nspec:\n  priority: \"high\"\n  subject: {namespaces: {}}\n",
	"badns":     "apiVersion: v1\nkind: Namespace\nmetadata: {name: \"nsbroken\", labels: \"none\"}\n",
}

var junkFiles = map[string]string{
	"syntax":      "apiVersion: v1\nkind: Pod\nmetadata:\n  name: [unclosed\n   bad: : indentation\n\t- tab\n",
	"syntax2":     "{\"apiVersion\": \"v1\", \"kind\": \"Pod\", \"metadata\": {\"name\": \n",
	"nonmanifest": "<html><body>this is not a manifest</body></html>\n",
	"binary":      "\x00\x01\x02\xff\xfe garbage \x7f\x00",
}

func c13Cells() []junkCell {
	cells := []junkCell{}
	// "lookalike-*": instances of custom resources whose KIND is spelled like a kind the analysis uses (another API group), named like a
	// real resource of the input - the analysis does not use them
	// "kustomization", "kubeconfig": valid documents of kinds that legitimately carry no metadata.name
	for _, k := range []string{"configmap", "secret", "crdinstance", "openshift", "list", "lookalike-service", "lookalike-route", "kustomization", "kubeconfig"} {
		for _, p := range []string{"file", "first", "middle", "last"} {
			cells = append(cells, junkCell{Kind: k, Placement: p})
		}
	}
	for _, k := range []string{"badnetpol", "baddeploy", "badpod", "badanp", "badns"} {
		for _, p := range []string{"file", "first", "middle", "last"} {
			cells = append(cells, junkCell{Kind: k, Placement: p, Bad: true})
		}
	}
	// a workload document that fails schema conversion and carries the kind, namespace and name of a VALID workload of the input
	for _, p := range []string{"file", "first", "middle", "last"} {
		cells = append(cells, junkCell{Kind: "samename-badworkload", Placement: p, Bad: true})
	}
	for _, k := range []string{"syntax", "syntax2", "nonmanifest", "binary", "danglingsymlink", "symlinkloop"} {
		cells = append(cells, junkCell{Kind: k, Placement: "file", Bad: true})
	}
	for _, k := range []string{"emptyfile", "txtfile", "mdfile", "pngfile", "jsonext"} {
		cells = append(cells, junkCell{Kind: k, Placement: "file"})
	}
	cells = append(cells, junkCell{Kind: "dupnetpol", Placement: "file", Fatal: true}, junkCell{Kind: "dupnetpol", Placement: "last", Fatal: true})
	// a fatal conflict next to a severe (malformed) document, recorded before or after it: the fatal error must still win
	cells = append(cells, junkCell{Kind: "dupnetpol+severe-before", Placement: "file", Fatal: true}, junkCell{Kind: "dupnetpol+severe-after", Placement: "file", Fatal: true},
		junkCell{Kind: "badcidr+severe-before", Placement: "file", Fatal: true},
		junkCell{Kind: "badsvcselector", Placement: "file", Fatal: true}, junkCell{Kind: "badsvcselector", Placement: "last", Fatal: true})
	return cells
}

func init() {
	run.Register(&run.Check{
		ID:    "C13",
		Level: "fault_enumeration",
		Rule: "fault enumeration: every (junk kind, placement) cell - 9 irrelevant kinds (a Kustomization and a kubeconfig, which carry no metadata.name; two custom resources whose kind is spelled like a used one and which are named like a real Service / Route of the input) and 6 schema-conversion failures (one of them carrying the kind, namespace and name of a valid workload of the input) x {own file, first/middle/last document of a valid file}, 6 unreadable/malformed file kinds (two syntax errors, HTML, binary, dangling symlink, symlink loop), 5 harmless files (empty .yaml, .txt, .md, .png, non-manifest .json), a fatal duplicate-NetworkPolicy conflict alone and next to a severe document recorded before / after it, a fatal invalid CIDR next to a severe document, a Service whose selector is no legal label selector (fatal: the ingress analysis cannot be built) - is applied to sampled valid worlds (case index mod number of cells picks the cell); " +
			"oracles over paired real runs: list(valid+junk) = list(valid) point-wise, severe(with) - severe(without) >= injected bad items for list AND for diff with the junk in dir1, in dir2 and different junk on both sides, stop-on-error + severe => empty result or error on ConnlistFromDirPath, ConnlistFromResourceInfos and diff, fatal => error and no result for list and diff, diff(valid+junk, valid) has no added/removed/changed entry; " +
			"non-trivial = the valid twin's report is non-empty and the cell injects a bad or fatal item; distinct = world hash + cell",
		Assumptions:       []string{"a syntax error ends the decoding of its own file, so broken content is injected as whole files only", "an empty file and files without manifest extension are neither errors nor inputs"},
		NumCases:          func(tier string, _ int64) int { return tierN(tier, len(c13Cells())*12, len(c13Cells())*400) },
		Run:               runC13,
		MinNonTrivial:     100,
		MinEffectiveShare: 0.5,
		RequiredEvents:    map[string]int64{"cells_run": 500, "relation_points_compared": 20000, "severe_entries_attributed": 100, "stop_on_error_runs_with_nonempty_twin": 50, "stop_on_error_diff_runs_with_nonempty_twin": 100, "fatal_cells": 10, "bad_items_injected": 200, "diff_error_runs": 400, "diff_severe_entries_attributed": 50, "diff_two_sided_junk_runs": 30},
	})
}

func runC13(c *run.Ctx) {
	r := c.Res
	cells := c13Cells()
	cell := cells[c.Idx%len(cells)]
	g := c.R("world")
	cfg := world.DefaultCfg()
	cfg.NamedEgressIP = 0
	cfg.MaxWorkloads = 5
	var w *world.World
	if g.P(0.25) {
		w = world.GenPrecedenceWorld(g, cfg)
	} else {
		w = world.GenNPWorld(g, cfg)
	}
	if strings.HasPrefix(cell.Kind, "lookalike") || (len(w.ANPs) == 0 && g.P(0.25)) {
		world.GenIngressResources(g, w) // the {ingress-controller} lines are part of the computed connections too
	}
	if strings.HasPrefix(cell.Kind, "dupnetpol") && len(w.NetPols) == 0 {
		w.NetPols = append(w.NetPols, world.GenNetPol(g, w, cfg, w.Workloads[0].Ns, "np0"))
	}
	r.Hash = w.Hash() + "/" + cell.Kind + "/" + cell.Placement
	r.Feat("kind_"+cell.Kind, "placement_"+cell.Placement)
	r.Ev("cells_run", 1)
	valid, junk := c.Dir("valid"), c.Dir("junk")
	docs := w.Docs()
	rng.Shuffle(g, docs)
	if err := world.WriteDocs(valid, docs, world.LayoutCanonial, nil); err != nil {
		r.Discarded = err.Error()
		return
	}
	// build the junk variant
	jdocs := append([]world.Doc(nil), docs...)
	junkName := ""
	injected := 0
	switch {
	case strings.Contains(cell.Kind, "+severe"):
		// fatal item and a malformed document in separate files; file names order the scan
		if err := world.WriteDocs(junk, jdocs, world.LayoutCanonial, nil); err != nil {
			r.Discarded = err.Error()
			return
		}
		var fatalY string
		if strings.HasPrefix(cell.Kind, "dupnetpol") {
			np := w.NetPols[0]
			np.Ingress, np.Egress = nil, nil
			fatalY = world.NetPolYAML(&np)
		} else {
			np := world.NetPol{Ns: w.Workloads[0].Ns, Name: "bad-cidr", Ingress: []world.NPRule{{Peers: []world.NPPeer{{IPBlock: &world.IPB{CIDR: "10.0.0.0/33"}}}}}}
			fatalY = world.NetPolYAML(&np)
		}
		sevName, fatName := "aa-severe.yaml", "zz-fatal.yaml"
		if strings.HasSuffix(cell.Kind, "severe-after") {
			sevName, fatName = "zz-severe.yaml", "aa-fatal.yaml"
		}
		_ = os.WriteFile(filepath.Join(junk, sevName), []byte(rng.Pick(g, []string{junkDocs["badpod"], junkDocs["badnetpol"], junkFiles["syntax"]})), 0o644)
		_ = os.WriteFile(filepath.Join(junk, fatName), []byte(fatalY), 0o644)
		junkName = fatName
		injected = 1
	case junkDocs[cell.Kind] != "" || cell.Kind == "dupnetpol" || cell.Kind == "samename-badworkload" || strings.HasPrefix(cell.Kind, "lookalike"):
		y := junkDocs[cell.Kind]
		switch cell.Kind {
		case "samename-badworkload":
			// the manifest of one of the input's own workloads with its spec replaced by a scalar: same kind, namespace and name, but it
			// cannot be converted; wherever it is read - before or after the good one - it is reported and the good one stays
			y = world.WorkloadDocs(&w.Workloads[g.Intn(len(w.Workloads))])[0].YAML
			if i := strings.Index(y, "\nspec:"); i >= 0 {
				y = y[:i] + "\nspec: \"to be filled in\"\n"
			}
		case "lookalike-service": // e.g. a Knative Service next to the core Service of the same name
			name, ns := "svc0", w.Workloads[0].Ns
			if len(w.Services) > 0 {
				sv := rng.Pick(g, w.Services)
				name, ns = sv.Name, sv.Ns
			}
			y = fmt.Sprintf("apiVersion: serving.knative.dev/v1\nkind: Service\nmetadata: {name: %q, namespace: %q}\nspec:\n  template:\n    spec:\n      containers: [{image: \"img\"}]\n", name, ns)
		case "lookalike-route": // e.g. a Knative Route next to the OpenShift Route of the same name
			name, ns := "route0", w.Workloads[0].Ns
			if len(w.Routes) > 0 {
				rt := rng.Pick(g, w.Routes)
				name, ns = rt.Name, rt.Ns
			}
			y = fmt.Sprintf("apiVersion: serving.knative.dev/v1\nkind: Route\nmetadata: {name: %q, namespace: %q}\nspec:\n  traffic: [{percent: 100, latestRevision: true}]\n", name, ns)
		}
		if cell.Kind == "dupnetpol" {
			np := w.NetPols[0]
			np.Ingress, np.Egress = nil, nil
			y = world.NetPolYAML(&np)
		}
		jd := world.Doc{Kind: "junk", YAML: y}
		switch cell.Placement {
		case "first":
			jdocs = append([]world.Doc{jd}, jdocs...)
		case "middle":
			m := len(jdocs) / 2
			jdocs = append(append(append([]world.Doc{}, jdocs[:m]...), jd), jdocs[m:]...)
		case "last":
			jdocs = append(jdocs, jd)
		}
		if err := world.WriteDocs(junk, jdocs, world.LayoutCanonial, nil); err != nil {
			r.Discarded = err.Error()
			return
		}
		if cell.Placement == "file" {
			junkName = rng.Pick(g, []string{"aa-junk.yaml", "zz-junk.yml", "sub/junk.yaml"})
			_ = os.MkdirAll(filepath.Dir(filepath.Join(junk, junkName)), 0o755)
			_ = os.WriteFile(filepath.Join(junk, junkName), []byte(y), 0o644)
		} else {
			junkName = "all.yaml"
		}
		injected = 1
	default:
		if err := world.WriteDocs(junk, jdocs, world.LayoutCanonial, nil); err != nil {
			r.Discarded = err.Error()
			return
		}
		junkName = rng.Pick(g, []string{"aa-", "zz-"}) + cell.Kind + ".yaml"
		p := filepath.Join(junk, junkName)
		switch cell.Kind {
		case "danglingsymlink":
			_ = os.Symlink("/nonexistent/target.yaml", p)
		case "symlinkloop":
			_ = os.Symlink(junkName, p)
		case "emptyfile":
			_ = os.WriteFile(p, nil, 0o644)
		case "txtfile", "mdfile", "pngfile":
			junkName = "notes." + strings.TrimSuffix(cell.Kind, "file")
			_ = os.WriteFile(filepath.Join(junk, junkName), []byte(junkFiles["syntax"]), 0o644)
		case "jsonext":
			junkName = "data.json"
			_ = os.WriteFile(filepath.Join(junk, junkName), []byte("{\"apiVersion\": \"v1\", \"kind\": \"ConfigMap\", \"metadata\": {\"name\": \"j\"}, \"data\": {\"a\": \"b\"}}\n"), 0o644)
		default:
			_ = os.WriteFile(p, []byte(junkFiles[cell.Kind]), 0o644)
		}
		injected = 1
	}
	if cell.Bad || cell.Fatal {
		r.Ev("bad_items_injected", int64(injected))
	}

	base := observe.List(valid, observe.ListOpts{})
	with := observe.List(junk, observe.ListOpts{})
	if base.Panic != "" || with.Panic != "" {
		r.Violate("c13.total", "c13.total:any:panic", "a result or an error", "panic: "+base.Panic+with.Panic, cell.Kind)
		return
	}
	if base.HasErr {
		r.Ev("valid_twin_errors", 1)
		return
	}
	nonEmptyTwin := len(base.Entries) > 0
	r.Effective = nonEmptyTwin
	r.NonTrivial = nonEmptyTwin && (cell.Bad || cell.Fatal)
	tag := cell.Kind + "@" + cell.Placement

	if cell.Fatal {
		r.Ev("fatal_cells", 1)
		for _, stop := range []bool{false, true} {
			res := with
			if stop {
				res = observe.List(junk, observe.ListOpts{StopOnError: true, ViaInfos: true})
			}
			// with stop-on-error a severe document recorded first ends the analysis before the conflict is ever seen:
			// then an empty result without error is what the statement asks for
			stoppedEarlier := stop && strings.Contains(cell.Kind, "+severe")
			if stoppedEarlier {
				if len(res.Entries) > 0 {
					r.Violate("c13.stop", "c13.stop:"+cell.Kind+":partial-report", "no connections with stop-on-error and a severe error", fmt.Sprintf("%d entries", len(res.Entries)), tag)
				}
				continue
			}
			if !res.HasErr || len(res.Entries) > 0 {
				r.Violate("c13.fatal", "c13.fatal:"+cell.Kind+":result-or-no-error", "an error and no result on a fatal conflict",
					fmt.Sprintf("error=%q entries=%d (stopOnError=%v)", res.Err, len(res.Entries), stop), tag)
			}
			if !res.HasFatal() {
				r.Violate("c13.fatal", "c13.fatal:"+cell.Kind+":no-fatal-entry", "a fatal entry in Errors()", fmt.Sprintf("%d entries, none fatal", len(res.Errs)), tag)
			}
		}
		for _, stop := range []bool{false, true} {
			for _, side := range []string{"dir1", "dir2"} {
				d1, d2 := junk, valid
				if side == "dir2" {
					d1, d2 = valid, junk
				}
				d := observe.Diff(d1, d2, observe.DiffOpts{StopOnError: stop})
				r.Ev("fatal_diff_runs", 1)
				if d.Panic != "" {
					r.Violate("c13.total", "c13.total:any:panic", "a result or an error", "panic: "+d.Panic, tag)
				} else if stop && strings.Contains(cell.Kind, "+severe") {
					if len(d.Entries) > 0 {
						r.Violate("c13.stop", "c13.stop:"+cell.Kind+":partial-diff", "no diff entries with stop-on-error and a severe error", fmt.Sprintf("%d entries", len(d.Entries)), tag)
					}
				} else if !d.HasErr || len(d.Entries) > 0 {
					r.Violate("c13.fatal", "c13.fatal:"+cell.Kind+":diff-result-or-no-error", "an error and no diff on a fatal conflict",
						fmt.Sprintf("error=%q entries=%d (stopOnError=%v, fatal item in %s)", d.Err, len(d.Entries), stop, side), tag)
				}
			}
		}
		return
	}

	// (1) junk never changes the connections
	if with.HasErr {
		r.Violate("c13.skew", "c13.skew:"+cell.Kind+":error", "the same report as without the junk", "error: "+with.Err, tag)
	} else {
		nv := 0
		n := forEachPoint(base, with, nil, func(p point) {
			if !p.A.Equal(p.B) {
				nv++
				if nv <= 2 {
					r.Violate("c13.skew", "c13.skew:"+cell.Kind+":differs", "the same connections as without the junk", p.A.String()+" vs "+p.B.String(), p.Src+" => "+p.Dst+" "+tag)
				}
			}
		})
		r.Ev("relation_points_compared", int64(n))
		if len(base.Peers) != len(with.Peers) {
			r.Violate("c13.skew", "c13.skew:"+cell.Kind+":peers", fmt.Sprintf("%d peers", len(base.Peers)), fmt.Sprintf("%d peers", len(with.Peers)), tag)
		}
	}
	// (1b) the same with stop-on-first-error when the input without them has nothing severe: irrelevant documents are not errors to stop
	// on (one that is reported as a severe error would empty the result here)
	if !cell.Bad && base.Severe() == 0 {
		sb := observe.List(valid, observe.ListOpts{StopOnError: true})
		sw := observe.List(junk, observe.ListOpts{StopOnError: true})
		if sb.Panic == "" && sw.Panic == "" {
			r.Ev("stop_on_error_runs_without_severe_error", 1)
			if ok, d := relationsEqual(sb, sw); !ok || sb.HasErr != sw.HasErr {
				r.Violate("c13.skew", "c13.skew:"+cell.Kind+":differs-with-stop-on-error", "the same connections as without the irrelevant documents (stop-on-error, no severe error present)", fmt.Sprintf("%s error=%v/%v", d, sb.HasErr, sw.HasErr), tag)
			}
		}
	}
	// (2) every malformed / unreadable item is reported as severe
	if cell.Bad {
		delta := with.Severe() - base.Severe()
		if delta < injected {
			texts := []string{}
			for _, e := range with.Errs {
				texts = append(texts, fmt.Sprintf("[severe=%v fatal=%v] %s %s", e.Severe, e.Fatal, e.Text, e.Loc))
			}
			r.Violate("c13.report", "c13.report:"+cell.Kind+":not-severe", fmt.Sprintf(">= %d additional severe entries in Errors()", injected),
				fmt.Sprintf("%d additional; entries: %s", delta, strings.Join(texts, " || ")), tag)
		}
		for _, e := range with.Errs {
			if e.Severe && (strings.Contains(e.Text, filepath.Base(junkName)) || strings.Contains(e.Loc, filepath.Base(junkName))) {
				r.Ev("severe_entries_attributed", 1)
				break
			}
		}
		// (2b) the same for diff, with the junk on either side and different junk on both sides
		sev := func(d *observe.DiffResult) int {
			n := 0
			for _, e := range d.Errs {
				if e.Severe {
					n++
				}
			}
			return n
		}
		mentions := func(d *observe.DiffResult, name string) int {
			n := 0
			for _, e := range d.Errs {
				if e.Severe && (strings.Contains(e.Text, name) || strings.Contains(e.Loc, name)) {
					n++
				}
			}
			return n
		}
		dBase := observe.Diff(valid, valid, observe.DiffOpts{})
		for _, side := range []string{"dir1", "dir2"} {
			d1, d2 := junk, valid
			if side == "dir2" {
				d1, d2 = valid, junk
			}
			dd := observe.Diff(d1, d2, observe.DiffOpts{})
			r.Ev("diff_error_runs", 1)
			if dd.Panic != "" {
				r.Violate("c13.total", "c13.total:any:panic", "a result or an error", "panic: "+dd.Panic, tag+" diff "+side)
				continue
			}
			if sev(dd)-sev(dBase) < injected {
				texts := []string{}
				for _, e := range dd.Errs {
					texts = append(texts, fmt.Sprintf("[severe=%v] %s %s", e.Severe, e.Text, e.Loc))
				}
				r.Violate("c13.report", "c13.report:"+cell.Kind+":diff-not-severe-"+side, fmt.Sprintf(">= %d additional severe entries in DiffAnalyzer.Errors() with the junk in %s", injected, side),
					fmt.Sprintf("%d additional; entries: %s", sev(dd)-sev(dBase), strings.Join(texts, " || ")), tag)
			} else if cell.Placement == "file" && mentions(dd, filepath.Base(junkName)) > 0 {
				r.Ev("diff_severe_entries_attributed", 1)
			}
		}
		if cell.Placement == "file" && junkFiles[cell.Kind] != "" {
			// a different broken file on the other side: each must be reported
			junk2 := c.Dir("junk2")
			_ = world.WriteDocs(junk2, docs, world.LayoutCanonial, nil)
			other := "mm-other-broken.yaml"
			_ = os.WriteFile(filepath.Join(junk2, other), []byte(junkFiles["syntax2"]+"# other\n"), 0o644)
			dd := observe.Diff(junk, junk2, observe.DiffOpts{})
			if dd.Panic == "" {
				a, b := mentions(dd, filepath.Base(junkName)), mentions(dd, other)
				r.Ev("diff_two_sided_junk_runs", 1)
				if a < 1 || b < 1 {
					r.Violate("c13.report", "c13.report:"+cell.Kind+":diff-two-sided", "each side's broken file reported as severe (at least once each)",
						fmt.Sprintf("%s mentioned %d x, %s mentioned %d x", filepath.Base(junkName), a, other, b), tag)
				}
			}
		}
		// (3) stop-on-error: no partial report
		routes := []struct {
			name string
			o    observe.ListOpts
		}{{"dirpath", observe.ListOpts{StopOnError: true}}, {"infos", observe.ListOpts{StopOnError: true, ViaInfos: true}}}
		for _, rt := range routes {
			res := observe.List(junk, rt.o)
			if res.Panic != "" {
				r.Violate("c13.total", "c13.total:any:panic", "a result or an error", "panic: "+res.Panic, tag+" stop "+rt.name)
				continue
			}
			if rt.name == "infos" && res.ScanErrs > 0 {
				// the severe error arose while scanning, which on this route the caller does itself: the analyzer never saw it
				r.Ev("infos_route_not_applicable_scan_error", 1)
				continue
			}
			if nonEmptyTwin && rt.name == "infos" {
				r.Ev("stop_on_error_runs_with_nonempty_twin", 1)
			}
			if len(res.Entries) > 0 {
				r.Violate("c13.stop", "c13.stop:"+cell.Kind+":partial-report", "no connections (empty result or error) with stop-on-error and a severe error",
					fmt.Sprintf("%d entries via %s", len(res.Entries), rt.name), tag)
			}
		}
		d := observe.Diff(junk, valid, observe.DiffOpts{StopOnError: true})
		if nonEmptyTwin {
			r.Ev("stop_on_error_diff_runs_with_nonempty_twin", 1)
		}
		if d.Panic != "" {
			r.Violate("c13.total", "c13.total:any:panic", "a result or an error", "panic: "+d.Panic, tag+" diff stop")
		} else if len(d.Entries) > 0 {
			r.Violate("c13.stop", "c13.stop:"+cell.Kind+":partial-diff", "no diff entries with stop-on-error and a severe error", fmt.Sprintf("%d entries", len(d.Entries)), tag)
		}
	} else {
		// harmless item: no new severe entry either
		if with.Severe() > base.Severe() && (cell.Kind == "txtfile" || cell.Kind == "mdfile" || cell.Kind == "pngfile") {
			r.Violate("c13.report", "c13.report:"+cell.Kind+":spurious-severe", "no error for a file without manifest extension", "a severe entry appeared", tag)
		}
	}
	// (4) diff is not skewed either
	d := observe.Diff(junk, valid, observe.DiffOpts{})
	if d.Panic != "" {
		r.Violate("c13.total", "c13.total:any:panic", "a result or an error", "panic: "+d.Panic, tag+" diff")
	} else if d.HasErr {
		r.Violate("c13.skew", "c13.skew:"+cell.Kind+":diff-error", "an empty diff between valid+junk and valid", "error: "+d.Err, tag)
	} else {
		for _, e := range d.Entries {
			if e.Type != "unchanged" {
				r.Violate("c13.skew", "c13.skew:"+cell.Kind+":diff-differs", "no added/removed/changed entry between valid+junk and valid", e.Type+" "+e.Src+" => "+e.Dst, tag)
				break
			}
		}
		r.Ev("diff_entries_checked", int64(len(d.Entries)))
	}
	if c.Idx%61 == 0 || len(r.Violations) > 0 {
		errs := []string{}
		for _, e := range with.Errs {
			errs = append(errs, fmt.Sprintf("[severe=%v fatal=%v] %s", e.Severe, e.Fatal, e.Text))
		}
		r.SetSample(map[string]interface{}{"cell": tag, "junk_file": junkName, "errors_with_junk": errs, "entries": len(with.Entries), "valid_yaml": shortWorld(w)})
	}
}
