package checks

import (
	"fmt"
	"strconv"
	"strings"

	"verif/harness/internal/observe"
	"verif/harness/internal/refmodel"
	"verif/harness/internal/rng"
	"verif/harness/internal/run"
	"verif/harness/internal/world"
)

func init() {
	run.Register(&run.Check{
		ID:    "C14",
		Level: "exploration",
		Rule: "cases: a NetworkPolicy-only base world and one single-step edit of a kind drawn by index (add rule in a governed direction; add policy on already-governed pods; add policy on ungoverned pods; five re-spellings: matchLabels<->single-value In, range<->two adjacent ranges, CIDR<->its two halves, policy<->rules split over two policies with the same selector (a third of these over rules that cover every protocol on every port only together), explicit<->defaulted policyTypes); " +
			"both worlds are analysed by the real library and the two reports compared point-wise (all workload pairs, all address atoms of both reports, 3x65535 bitsets) for the inclusion / equality / locality the statement demands - no semantic model of the policies is involved, only the selector matcher deciding which pods the new policy selects; " +
			"non-trivial = the base report has a partial or missing connection for some pair (policies bite) ; effective = the edit could be applied",
		Assumptions:       []string{"which workloads a new policy selects, and whether they were governed before, is decided by our own selector matcher and the policyTypes defaulting rule", "no named port can reach an address in these worlds (the documented fatal-error deviation is excluded by construction)"},
		NumCases:          func(tier string, _ int64) int { return tierN(tier, 1600, 40000) },
		Run:               runC14,
		MinNonTrivial:     300,
		MinEffectiveShare: 0.6,
		RequiredEvents: map[string]int64{"points_compared": 50000, "edit_addRule": 50, "edit_addPolicyGoverned": 40, "edit_addPolicyUngoverned": 40,
			"edit_spellIn": 40, "edit_spellSplitRange": 40, "edit_spellSplitCIDR": 40, "edit_spellSplitPolicy": 40, "edit_spellPolicyTypes": 40, "locality_points": 2000,
			"strict_growth_observed": 20, "strict_shrink_observed": 20},
	})
}

func selectedBy(np *world.NetPol, w *world.World) map[string]bool {
	out := map[string]bool{}
	for i := range w.Workloads {
		wl := &w.Workloads[i]
		if wl.Ns == np.Ns && refmodel.Match(&np.PodSel, wl.Labels) {
			out[wl.PeerString()] = true
		}
	}
	return out
}

func governedBefore(w *world.World, wl *world.Workload, ingress bool) bool {
	m := &refmodel.Model{W: w}
	return len(m.Governing(refmodel.WorkloadPeer(w, wl), ingress)) > 0
}

func halves(c string) (string, string, bool) {
	lo, hi, ok := world.CIDRRange(c)
	if !ok || lo == hi {
		return "", "", false
	}
	n, _ := strconv.Atoi(c[strings.LastIndexByte(c, '/')+1:])
	size := uint64(hi) - uint64(lo) + 1
	mid := uint32(uint64(lo) + size/2)
	return fmt.Sprintf("%s/%d", world.IPString(lo), n+1), fmt.Sprintf("%s/%d", world.IPString(mid), n+1), true
}

// applyC14Edit returns the edited world, the expectation ("superset", "subset", "equal"), the new policy (for locality) or nil.
func applyC14Edit(g *rng.R, w0 *world.World, cfg world.Cfg, kind int) (*world.World, string, string, *world.NetPol) {
	w := w0.Clone()
	if len(w.NetPols) == 0 {
		return nil, "", "", nil
	}
	switch kind {
	case 0: // add a rule in a direction the policy already governs
		order := g.Intn(len(w.NetPols))
		for k := 0; k < len(w.NetPols); k++ {
			np := &w.NetPols[(order+k)%len(w.NetPols)]
			ing := g.P(0.5)
			for t := 0; t < 2; t++ {
				if np.HasDirection(ing) {
					rule := world.GenNPRule(g, w, cfg, np.Ns, !ing)
					// goal-directed: reuse a CIDR the policy already mentions, with other excepts
					if g.P(0.4) {
						var cidrs []string
						for _, rules := range [][]world.NPRule{np.Ingress, np.Egress} {
							for _, ru := range rules {
								for _, pe := range ru.Peers {
									if pe.IPBlock != nil {
										cidrs = append(cidrs, pe.IPBlock.CIDR)
									}
								}
							}
						}
						if len(cidrs) > 0 {
							ib := &world.IPB{CIDR: rng.Pick(g, cidrs)}
							for _, e := range world.CIDRs {
								if el, eh, ok := world.CIDRRange(e); ok {
									if cl, ch, _ := world.CIDRRange(ib.CIDR); el >= cl && eh <= ch && !(el == cl && eh == ch) && g.P(0.3) {
										ib.Except = append(ib.Except, e)
									}
								}
							}
							rule.Peers = append(rule.Peers, world.NPPeer{IPBlock: ib})
							if !ing { // an egress rule that reaches addresses must not carry named ports (documented fatal error)
								kept := []world.NPPort{}
								for _, pt := range rule.Ports {
									if pt.Name == "" {
										kept = append(kept, pt)
									}
								}
								if len(kept) == 0 && len(rule.Ports) > 0 {
									kept = []world.NPPort{{Port: 80}}
								}
								rule.Ports = kept
							}
						}
					}
					prepend := g.P(0.5) // rules are unordered: the new rule may come first
					if ing {
						if prepend {
							np.Ingress = append([]world.NPRule{rule}, np.Ingress...)
						} else {
							np.Ingress = append(np.Ingress, rule)
						}
					} else {
						if prepend {
							np.Egress = append([]world.NPRule{rule}, np.Egress...)
						} else {
							np.Egress = append(np.Egress, rule)
						}
					}
					return w, "addRule", "superset", nil
				}
				ing = !ing
			}
		}
	case 1, 2: // add a policy on governed / ungoverned pods
		wantGoverned := kind == 1
		for tries := 0; tries < 30; tries++ {
			var np world.NetPol
			if wantGoverned && g.P(0.7) {
				src := w.NetPols[g.Intn(len(w.NetPols))]
				np = world.GenNetPol(g, w, cfg, src.Ns, "added")
				np.PodSel = src.PodSel
				np.HasTypes, np.PolicyTypes = true, nil
				if src.HasDirection(true) {
					np.PolicyTypes = append(np.PolicyTypes, "Ingress")
				}
				if src.HasDirection(false) && (len(np.PolicyTypes) == 0 || g.P(0.7)) {
					np.PolicyTypes = append(np.PolicyTypes, "Egress")
				}
			} else {
				wl := rng.Pick(g, w.Workloads)
				np = world.GenNetPol(g, w, cfg, wl.Ns, "added")
				if g.P(0.7) {
					np.PodSel = *world.SelFor(g, wl.Labels)
				}
			}
			sel := 0
			allGov, noneGov := true, true
			for i := range w.Workloads {
				wl := &w.Workloads[i]
				if wl.Ns != np.Ns || !refmodel.Match(&np.PodSel, wl.Labels) {
					continue
				}
				sel++
				for _, ing := range []bool{true, false} {
					if np.HasDirection(ing) {
						if governedBefore(w, wl, ing) {
							noneGov = false
						} else {
							allGov = false
						}
					}
				}
			}
			if sel == 0 {
				continue
			}
			if wantGoverned && allGov {
				w.NetPols = append(w.NetPols, np)
				return w, "addPolicyGoverned", "superset", &w.NetPols[len(w.NetPols)-1]
			}
			if !wantGoverned && noneGov {
				w.NetPols = append(w.NetPols, np)
				return w, "addPolicyUngoverned", "subset", &w.NetPols[len(w.NetPols)-1]
			}
		}
		// mixed: locality only
		wl := rng.Pick(g, w.Workloads)
		np := world.GenNetPol(g, w, cfg, wl.Ns, "added")
		w.NetPols = append(w.NetPols, np)
		return w, "addPolicyMixed", "none", &w.NetPols[len(w.NetPols)-1]
	case 3: // matchLabels <-> single-value In, everywhere it is possible
		n := 0
		conv := func(s *world.Sel) {
			if s == nil {
				return
			}
			if len(s.ML) > 0 && g.P(0.7) {
				for _, k := range world.SortedKeys(s.ML) {
					s.ME = append(s.ME, world.Req{Key: k, Op: "In", Vals: []string{s.ML[k]}})
					n++
				}
				s.ML = nil
				return
			}
			keep := []world.Req{}
			for _, e := range s.ME {
				if e.Op == "In" && len(e.Vals) == 1 && g.P(0.7) {
					if _, dup := s.ML[e.Key]; !dup {
						if s.ML == nil {
							s.ML = map[string]string{}
						}
						s.ML[e.Key] = e.Vals[0]
						n++
						continue
					}
				}
				keep = append(keep, e)
			}
			s.ME = keep
		}
		for i := range w.NetPols {
			np := &w.NetPols[i]
			conv(&np.PodSel)
			for _, rules := range [][]world.NPRule{np.Ingress, np.Egress} {
				for ri := range rules {
					for pi := range rules[ri].Peers {
						conv(rules[ri].Peers[pi].PodSel)
						conv(rules[ri].Peers[pi].NsSel)
					}
				}
			}
		}
		if n > 0 {
			return w, "spellIn", "equal", nil
		}
	case 4: // one range <-> two adjacent ranges
		n := 0
		for i := range w.NetPols {
			np := &w.NetPols[i]
			for _, rules := range [][]world.NPRule{np.Ingress, np.Egress} {
				for ri := range rules {
					out := []world.NPPort{}
					for _, p := range rules[ri].Ports {
						switch {
						case p.Name == "" && p.Port != 0 && p.EndPort > p.Port && g.P(0.8):
							mid := p.Port + g.Intn(p.EndPort-p.Port)
							a, b := p, p
							a.EndPort = mid
							if a.EndPort == a.Port && g.P(0.5) {
								a.EndPort = 0
							}
							b.Port = mid + 1
							if b.EndPort == b.Port && g.P(0.5) {
								b.EndPort = 0
							}
							out = append(out, a, b)
							n++
						case p.Name == "" && p.Port == 0 && g.P(0.6): // protocol-only = 1..65535
							a, b := p, p
							mid := rng.Pick(g, []int{1, 79, 80, 32768, 65534})
							a.Port, a.EndPort = 1, mid
							b.Port, b.EndPort = mid+1, 65535
							out = append(out, a, b)
							n++
						default:
							out = append(out, p)
						}
					}
					rules[ri].Ports = out
				}
			}
		}
		if n > 0 {
			return w, "spellSplitRange", "equal", nil
		}
	case 5: // CIDR <-> its two halves (excepts go to the half that contains them)
		n := 0
		for i := range w.NetPols {
			np := &w.NetPols[i]
			for _, rules := range [][]world.NPRule{np.Ingress, np.Egress} {
				for ri := range rules {
					out := []world.NPPeer{}
					for _, p := range rules[ri].Peers {
						if p.IPBlock == nil || !g.P(0.8) {
							out = append(out, p)
							continue
						}
						h1, h2, ok := halves(p.IPBlock.CIDR)
						if !ok {
							out = append(out, p)
							continue
						}
						b1, b2 := &world.IPB{CIDR: h1}, &world.IPB{CIDR: h2}
						bad := false
						for _, e := range p.IPBlock.Except {
							el, eh, _ := world.CIDRRange(e)
							l1, u1, _ := world.CIDRRange(h1)
							l2, u2, _ := world.CIDRRange(h2)
							switch {
							case el >= l1 && eh <= u1 && !(el == l1 && eh == u1):
								b1.Except = append(b1.Except, e)
							case el >= l2 && eh <= u2 && !(el == l2 && eh == u2):
								b2.Except = append(b2.Except, e)
							default:
								bad = true // an except equal to a whole half cannot be re-spelled admissibly
							}
						}
						if bad {
							out = append(out, p)
							continue
						}
						out = append(out, world.NPPeer{IPBlock: b1}, world.NPPeer{IPBlock: b2})
						n++
					}
					rules[ri].Peers = out
				}
			}
		}
		if n > 0 {
			return w, "spellSplitCIDR", "equal", nil
		}
	case 6: // one policy <-> same rules split over two policies with the same selector
		order := g.Intn(len(w.NetPols))
		for i := range w.NetPols {
			if w.NetPols[i].Name == "allproto" { // the stratum of runC14: rules that only TOGETHER cover every protocol on every port
				order = i
			}
		}
		for k := 0; k < len(w.NetPols); k++ {
			np := &w.NetPols[(order+k)%len(w.NetPols)]
			if len(np.Ingress)+len(np.Egress) < 2 {
				continue
			}
			second := *np
			second.Name = np.Name + "-b"
			// keep both policies governing exactly the directions of the original
			types := []string{}
			if np.HasDirection(true) {
				types = append(types, "Ingress")
			}
			if np.HasDirection(false) {
				types = append(types, "Egress")
			}
			ia, ib := splitRules(g, np.Ingress)
			ea, eb := splitRules(g, np.Egress)
			if np.Name == "allproto" {
				ia, ib = np.Ingress[:len(np.Ingress)/2], np.Ingress[len(np.Ingress)/2:]
				ea, eb = np.Egress[:len(np.Egress)/2], np.Egress[len(np.Egress)/2:]
			}
			np.Ingress, second.Ingress = ia, ib
			np.Egress, second.Egress = ea, eb
			np.HasTypes, np.PolicyTypes = true, types
			second.HasTypes, second.PolicyTypes = true, types
			w.NetPols = append(w.NetPols, second)
			return w, "spellSplitPolicy", "equal", nil
		}
	case 7: // explicit <-> defaulted policyTypes
		order := g.Intn(len(w.NetPols))
		for k := 0; k < len(w.NetPols); k++ {
			np := &w.NetPols[(order+k)%len(w.NetPols)]
			if np.HasTypes {
				// can be defaulted iff Ingress is in the list and Egress is in it exactly when there are egress rules
				hasI, hasE := np.HasDirection(true), np.HasDirection(false)
				if hasI && hasE == (len(np.Egress) > 0) {
					np.HasTypes, np.PolicyTypes = false, nil
					if g.P(0.6) { // the direction without rules written as an empty list / null: still "no rules", still defaulted the same way
						np.EmptySpelling = rng.Pick(g, []string{"list", "list", "null"})
					}
					return w, "spellPolicyTypes", "equal", nil
				}
			} else {
				types := []string{"Ingress"}
				if len(np.Egress) > 0 {
					types = append(types, "Egress")
				}
				if g.P(0.5) && len(types) == 2 {
					types[0], types[1] = types[1], types[0]
				}
				np.HasTypes, np.PolicyTypes = true, types
				np.EmptySpelling = rng.Pick(g, []string{np.EmptySpelling, "", "list", "null"})
				return w, "spellPolicyTypes", "equal", nil
			}
		}
	}
	return nil, "", "", nil
}

func splitRules(g *rng.R, rules []world.NPRule) (a, b []world.NPRule) {
	for _, r := range rules {
		if g.P(0.5) {
			a = append(a, r)
		} else {
			b = append(b, r)
		}
	}
	return a, b
}

func runC14(c *run.Ctx) {
	r := c.Res
	g := c.R("world")
	cfg := world.DefaultCfg()
	cfg.KindTwins, cfg.SharedNames = 0.15, 0.1
	cfg.NamedEgressIP = 0
	cfg.MinNetPols = 1
	cfg.MaxWorkloads = 5
	w := world.GenNPWorld(g, cfg)
	kind := c.Idx % 8
	if kind == 6 && g.P(0.3) {
		// two rules towards everybody that only TOGETHER cover every protocol on every port (TCP+UDP in one, SCTP in the other; or
		// TCP 1-65535 + UDP in one, SCTP in the other), in one direction of one workload whose partners are restricted by other policies
		x := rng.Pick(g, w.Workloads)
		all := []world.NPPeer{{NsSel: &world.Sel{}}}
		first := []world.NPPort{{Proto: "TCP"}, {Proto: "UDP"}}
		if g.P(0.4) {
			first = []world.NPPort{{Proto: "TCP", Port: 1, EndPort: 65535}, {Proto: "UDP"}}
		}
		rules := []world.NPRule{{Peers: all, Ports: first}, {Peers: all, Ports: []world.NPPort{{Proto: "SCTP"}}}}
		if g.P(0.5) {
			rules[0], rules[1] = rules[1], rules[0]
		}
		np := world.NetPol{Ns: x.Ns, Name: "allproto", PodSel: *world.SelFor(g, x.Labels), HasTypes: true}
		if g.P(0.6) {
			np.Egress, np.PolicyTypes = rules, []string{"Egress"}
		} else {
			np.Ingress, np.PolicyTypes = rules, []string{"Ingress"}
		}
		w.NetPols = append(w.NetPols, np)
		w.AddFeature("rulesCoveringAllProtocolsOnlyTogether")
		r.Ev("split_policy_rules_covering_all_protocols_only_together", 1)
	}
	if kind == 5 && g.P(0.35) && world.AddEverybodyPlusHoledRangeRule(g, w) {
		r.Ev("split_cidr_next_to_an_all_pods_peer", 1)
	}
	w2, name, expect, added := applyC14Edit(g, w, cfg, kind)
	if w2 == nil {
		r.Ev("edit_not_applicable", 1)
		return
	}
	r.Hash = w.Hash() + "/" + name + "/" + w2.Hash()
	r.Ev("edit_"+name, 1)
	r.Feat(name)
	d1, d2 := c.Dir("base"), c.Dir("edited")
	if err := w.Write(d1, c.R("l1")); err != nil {
		r.Discarded = err.Error()
		return
	}
	if err := w2.Write(d2, c.R("l2")); err != nil {
		r.Discarded = err.Error()
		return
	}
	a, b := observe.List(d1, observe.ListOpts{}), observe.List(d2, observe.ListOpts{})
	if a.Panic != "" || b.Panic != "" {
		r.Violate("c14.total", "c14.total:any:panic", "a result or an error", "panic: "+a.Panic+b.Panic, "")
		return
	}
	if a.HasErr || b.HasErr {
		r.Violate("c14.rel", "c14.rel:toolerror:error", "two reports", "error: "+a.Err+" / "+b.Err, name)
		return
	}
	r.Effective = true
	var selected map[string]bool
	if added != nil {
		selected = selectedBy(added, w2)
	}
	nv := 0
	grew, shrank := false, false
	partial := false
	n := forEachPoint(a, b, nil, func(p point) {
		if !p.A.IsFull() {
			partial = true
		}
		sub, sup := p.A.SubsetOf(p.B), p.B.SubsetOf(p.A)
		if sub && !sup {
			grew = true
		}
		if sup && !sub {
			shrank = true
		}
		bad := ""
		switch expect {
		case "superset":
			if !sub {
				bad = "edit removed a connection (expected R ⊆ R')"
			}
		case "subset":
			if !sup {
				bad = "edit added a connection (expected R' ⊆ R)"
			}
		case "equal":
			if !(sub && sup) {
				bad = "equivalent spelling changed the report"
			}
		}
		if bad == "" && added != nil {
			srcSel := p.SrcWL != "" && selected[p.SrcWL] && added.HasDirection(false)
			dstSel := p.DstWL != "" && selected[p.DstWL] && added.HasDirection(true)
			if !srcSel && !dstSel {
				r.Ev("locality_points", 1)
				if !(sub && sup) {
					bad = "connection changed although the new policy selects neither its source for egress nor its destination for ingress"
				}
			}
		}
		if bad != "" {
			nv++
			if nv <= 3 {
				r.Violate("c14.rel", "c14.rel:"+name+":"+expect, bad, p.A.String()+" -> "+p.B.String(), p.Src+" => "+p.Dst)
			}
		}
	})
	r.Ev("points_compared", int64(n))
	if grew {
		r.Ev("strict_growth_observed", 1)
	}
	if shrank {
		r.Ev("strict_shrink_observed", 1)
	}
	r.NonTrivial = partial
	if c.Idx%101 == 0 || nv > 0 {
		r.SetSample(map[string]interface{}{"edit": name, "expect": expect, "base": shortWorld(w), "edited": shortWorld(w2)})
	}
}
