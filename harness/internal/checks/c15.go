package checks

import (
	"fmt"
	"strings"
	"sync"

	"k8s.io/apimachinery/pkg/runtime"

	"verif/harness/internal/observe"
	"verif/harness/internal/refmodel"
	"verif/harness/internal/rng"
	"verif/harness/internal/run"
	"verif/harness/internal/world"
)

func init() {
	run.Register(&run.Check{
		ID:    "C15",
		Level: "exploration",
		Rule: "cases: histories of up to 40 InsertObject / DeleteObject / SetResources calls on one PolicyEngine - empty at first and filled one by one or through the bulk setter, or created by NewPolicyEngineWithObjects from the initial objects - (pods with controller owners - several per owner - and workload objects (Deployment, StatefulSet) relabelled, re-ported, added, deleted, re-inserted with another replica count, re-inserted unchanged (a status update) and then deleted and re-created with other ports; namespaces inserted, relabelled, deleted; NetworkPolicies inserted, deleted, deleted+reinserted changed; ANPs inserted in non-priority order and deleted through the inserted or an equal fresh object; the BANP inserted, deleted, replaced; deletes of never-inserted objects of every kind; ClearResources followed by the return of the namespaces and pods with only some of the policies; a SetResources call that fails half-way, judged against both readings of what a failed batch leaves behind; an AdminNetworkPolicy whose insert is rejected - priority in use or outside 0..1000 -, a valid one inserted while it may still be held, then the rejected one deleted: if the valid insert returned an error all answers must be those of a fresh engine with it or all those of one without it; case 0 is the committed witness history of finding C15-rejected-anp-insert), with a fixed query set (pod pairs x boundary ports x TCP/UDP) asked after every step; " +
			"oracle: the history engine's answer must equal the answer of a fresh engine built with NewPolicyEngineWithObjects from the objects current at that moment (the reference model is consulted too: where the comparison engine and the model disagree, an engine built for that single question arbitrates - the comparison engine answers many questions and may be misled by its own memory -, and if that one disagrees with the model too the query is not judged here); the engine's own cache-hit counter, read around every query, says which answers came out of the cache; " +
			"non-trivial = at least one answer changed over the history (how many answers came out of the cache after an update is reported, not demanded: an engine that remembers less is just as right); distinct = hash of the operation sequence",
		Assumptions:       []string{"current objects = the objects of the successful calls so far (model state kept by the harness)", "a NetworkPolicy is updated by delete + insert (InsertObject rejects an existing name)"},
		NumCases:          func(tier string, _ int64) int { return tierN(tier, 600, 12000) },
		Run:               runC15,
		RaceSliceCases:    1500,
		MinNonTrivial:     200,
		MinEffectiveShare: 0.5,
		RequiredEvents: map[string]int64{"steps": 5000, "queries": 200000, "answers_changed_by_a_step": 1000, "deletes_of_absent_objects": 300,
			"op_nsRelabel": 100, "op_nsDelete": 50, "op_anpInsert": 100, "op_anpDelete": 100, "op_banpInsert": 50, "op_banpDelete": 50, "op_npInsert": 100, "op_npDelete": 100,
			"op_podRelabel": 100, "op_podDelete": 50, "op_podPorts": 50, "op_podRecreate": 50, "op_SetResources": 100, "op_clearRepopulate": 50, "histories_starting_from_the_constructor": 100, "op_failingBulkSet": 50, "op_podPending": 50, "op_anpRejectedInsert": 100, "op_wlRescale": 100},
	})
}

type c15State struct {
	w    *world.World
	eng  *observe.Engine
	anps map[string]runtime.Object // instances that were inserted (pointer identity matters for one delete path)
	r    *run.CaseResult
	log  []string
}

func (s *c15State) obj(d world.Doc) runtime.Object {
	_, o, err := observe.ObjectFromDoc(d)
	if err != nil {
		panic("harness: cannot build object: " + err.Error() + "\n" + d.YAML)
	}
	return o
}

func (s *c15State) call(what string, res observe.CallResult, mustSucceed bool) bool {
	s.log = append(s.log, what)
	if res.Panic != "" {
		s.r.Violate("c15.total", "c15.total:"+strings.Fields(what)[0]+":panic", "a no-op or an error, never a crash", "panic: "+res.Panic, what)
		return false
	}
	if res.HasErr && mustSucceed {
		s.r.Violate("c15.call", "c15.call:"+strings.Fields(what)[0]+":error", "call succeeds", "error: "+res.Err, what)
		return false
	}
	return !res.HasErr
}

func (s *c15State) insertWorkload(wl *world.Workload) {
	for _, d := range world.WorkloadDocs(wl) {
		s.call("insert "+d.Kind+" "+d.Ns+"/"+d.Name, s.eng.Insert(s.obj(d)), true)
	}
}

func (s *c15State) deleteWorkload(wl *world.Workload) {
	for _, d := range world.WorkloadDocs(wl) {
		s.call("delete "+d.Kind+" "+d.Ns+"/"+d.Name, s.eng.Delete(s.obj(d)), true)
	}
}

type c15Query struct {
	src, dst string // pod names
	proto    string
	port     int
}

// runC15Witness replays the committed history of finding C15-rejected-anp-insert: an AdminNetworkPolicy with priority 5000 is rejected,
// a valid one (priority 3) is inserted next (the call returns an error because of the first one), the rejected one is deleted. The answers
// afterwards must be those of a fresh engine holding {deny-80 (priority 5), allow-80-81 (priority 3)} or of one holding {deny-80} only.
func runC15Witness(c *run.Ctx) {
	r := c.Res
	r.Name = "witness C15-rejected-anp-insert"
	r.Hash = "witness"
	all := world.Subject{Namespaces: &world.Sel{}}
	w := &world.World{
		Namespaces: []world.Namespace{{Name: "ns1"}},
		Workloads: []world.Workload{
			{Ns: "ns1", Name: "client", Kind: world.KPod, Labels: map[string]string{"app": "client"}, Ports: []world.CPort{{Num: 80, Proto: "TCP"}}},
			{Ns: "ns1", Name: "server", Kind: world.KPod, Labels: map[string]string{"app": "server"}, Ports: []world.CPort{{Num: 80, Proto: "TCP"}}}},
		ANPs: []world.ANP{{Name: "deny-80", Priority: 5, Subject: all,
			Ingress: []world.ANPRule{{Name: "d", Action: "Deny", Peers: []world.Subject{all}, HasPorts: true, Ports: []world.ANPPort{{Kind: "num", Proto: "TCP", Port: 80}}}}}},
		BANP: &world.BANP{Name: "default", Subject: all, Ingress: []world.ANPRule{{Name: "b", Action: "Deny", Peers: []world.Subject{all}}}},
	}
	rejected := world.ANP{Name: "rejected", Priority: 5000, Subject: all}
	valid := world.ANP{Name: "allow-80-81", Priority: 3, Subject: all,
		Ingress: []world.ANPRule{{Name: "a", Action: "Allow", Peers: []world.Subject{all}, HasPorts: true, Ports: []world.ANPPort{{Kind: "range", Proto: "TCP", Port: 80, End: 81}}}}}
	st := &c15State{w: w, eng: observe.NewEngine(), anps: map[string]runtime.Object{}, r: r}
	for _, d := range w.Docs() {
		st.call("insert "+d.Kind+" "+d.Ns+"/"+d.Name, st.eng.Insert(st.obj(d)), true)
	}
	st.call("insert AdminNetworkPolicy rejected (priority 5000)", st.eng.Insert(st.obj(world.ANPDoc(&rejected))), false)
	validOK := st.call("insert AdminNetworkPolicy allow-80-81 (priority 3)", st.eng.Insert(st.obj(world.ANPDoc(&valid))), false)
	st.call("delete AdminNetworkPolicy rejected", st.eng.Delete(st.obj(world.ANPDoc(&rejected))), true)
	if len(r.Violations) > 0 {
		return
	}
	with := w.Clone()
	with.ANPs = append(with.ANPs, valid)
	answers := func(x *world.World) string {
		objs, err := observe.ObjectsFromWorld(x)
		if err != nil {
			return "objects: " + err.Error()
		}
		e, cr := observe.NewEngineWithObjects(objs)
		if cr.Panic != "" || cr.HasErr {
			return "engine: " + cr.Panic + cr.Err
		}
		return fmt.Sprint(e.Check("ns1/client", "ns1/server", "TCP", "80").Allowed, e.Check("ns1/client", "ns1/server", "TCP", "81").Allowed)
	}
	got := fmt.Sprint(st.eng.Check("ns1/client", "ns1/server", "TCP", "80").Allowed, st.eng.Check("ns1/client", "ns1/server", "TCP", "81").Allowed)
	wantWith, wantWithout := answers(with), answers(w)
	r.Ev("queries", 2)
	r.Ev("witness_histories", 1)
	r.Effective, r.NonTrivial = true, true
	if got != wantWith && (validOK || got != wantWithout) {
		r.Violate("c15.history", "c15.history:failed-anp-insert:mixed-state", fmt.Sprintf("[80 81] = %s (the valid policy is held) or, if its insert returned an error, %s (it is not)", wantWith, wantWithout),
			fmt.Sprintf("%s (its insert succeeded: %v)", got, validOK), "history: "+strings.Join(st.log, " ; "))
	}
}

func runC15(c *run.Ctx) {
	r := c.Res
	if c.Idx == 0 {
		runC15Witness(c)
		return
	}
	g := c.R("history")
	cfg := world.DefaultCfg()
	cfg.NamedEgressIP = 0
	cfg.NoIPBlocks = true
	cfg.MinWorkloads, cfg.MaxWorkloads = 3, 4
	cfg.Kinds = []string{world.KOwnedPods, world.KOwnedPods, world.KPod, world.KDeployment, world.KStatefulSet}
	cfg.MinNetPols, cfg.MaxNetPols = 0, 3
	w := world.GenBase(g, cfg)
	if g.P(0.3) {
		// two owner-less pods in ONE namespace that a policy tells apart, queried from pods that have an owner: whatever is remembered
		// per owner must not be shared between pods that have none
		ns := w.Workloads[0].Ns
		a := world.Workload{Ns: ns, Name: "bare-a", Kind: world.KPod, Labels: map[string]string{"app": "a"}, Ports: []world.CPort{{Num: 80}}}
		b := world.Workload{Ns: ns, Name: "bare-b", Kind: world.KPod, Labels: map[string]string{"app": "b"}, Ports: []world.CPort{{Num: 80}}}
		if len(w.Workloads) > 2 {
			w.Workloads = w.Workloads[:2]
		}
		for i := range w.Workloads {
			if w.Workloads[i].Kind == world.KPod {
				w.Workloads[i].Kind, w.Workloads[i].NPods, w.Workloads[i].OwnerKind = world.KOwnedPods, 2, world.KReplicaSet
			}
		}
		w.Workloads = append([]world.Workload{a, b}, w.Workloads...)
		w.NetPols = append(w.NetPols, world.NetPol{Ns: ns, Name: "only-a", PodSel: world.Sel{ML: map[string]string{"app": "a"}}, HasTypes: true, PolicyTypes: []string{"Ingress"},
			Ingress: []world.NPRule{{Peers: []world.NPPeer{{PodSel: &world.Sel{ML: map[string]string{"app": "nobody"}}}}}}})
		r.Ev("worlds_with_two_bare_pods_told_apart", 1)
	}
	world.GenNetPols(g, w, cfg)
	if g.P(0.7) {
		world.GenAdmin(g, w, cfg, 0, 3, 0.5)
	}
	// every namespace of the vocabulary exists in the state (with or without an object)
	for _, ns := range world.NsNames {
		if w.NsByName(ns) == nil {
			w.Namespaces = append(w.Namespaces, world.Namespace{Name: ns})
		}
	}
	st := &c15State{w: w, eng: observe.NewEngine(), anps: map[string]runtime.Object{}, r: r}
	// initial fill, in random order
	type ins struct {
		doc  world.Doc
		kind string
	}
	docs := w.Docs()
	rng.Shuffle(g, docs)
	if c.Idx%3 == 1 { // initial state handed to the constructor (the route list and diff take), every later step through InsertObject / DeleteObject
		objs, err := observe.ObjectsFromWorld(w)
		if err != nil {
			r.Discarded = "objects: " + err.Error()
			return
		}
		eng, cr := observe.NewEngineWithObjects(objs)
		st.log = append(st.log, "NewPolicyEngineWithObjects "+fmt.Sprint(len(objs))+" objects")
		if cr.Panic != "" || cr.HasErr {
			r.Violate("c15.history", "c15.history:constructor:error", "an engine holding the initial objects", "panic/error: "+cr.Panic+cr.Err, "")
			return
		}
		st.eng = eng
		r.Ev("histories_starting_from_the_constructor", 1)
	} else if c.Idx%3 == 0 { // initial state through the bulk setter, the rest one by one
		objs := []runtime.Object{}
		kinds := map[runtime.Object]world.Doc{}
		for _, d := range docs {
			o := st.obj(d)
			if d.Kind == "AdminNetworkPolicy" {
				st.anps[d.Name] = o
			}
			objs = append(objs, o)
			kinds[o] = d
		}
		res, rest := st.eng.SetResources(objs)
		st.call("SetResources "+fmt.Sprint(len(objs)-len(rest))+" objects", res, true)
		r.Ev("op_SetResources", 1)
		for _, o := range rest {
			d := kinds[o]
			st.call("insert "+d.Kind+" "+d.Ns+"/"+d.Name, st.eng.Insert(o), true)
		}
	} else {
		for _, d := range docs {
			o := st.obj(d)
			if d.Kind == "AdminNetworkPolicy" {
				st.anps[d.Name] = o
			}
			st.call("insert "+d.Kind+" "+d.Ns+"/"+d.Name, st.eng.Insert(o), true)
		}
	}
	if len(r.Violations) > 0 {
		return
	}
	ports := boundaryPorts(g, w)
	rng.Shuffle(g, ports)
	if len(ports) > 3 {
		ports = ports[:3]
	}
	ports = append(ports, 80)
	nextID := 100
	priPool := append([]int(nil), world.Priorities...)
	rng.Shuffle(g, priPool)
	usedPri := map[int]bool{}
	for _, a := range w.ANPs {
		usedPri[a.Priority] = true
	}
	prev := map[string]bool{}
	cacheAfterUpdate, changed := false, false
	steps := g.Range(10, 40)
	check := func(afterUpdate bool) {
		pods := []struct {
			name string
			wl   *world.Workload
		}{}
		for i := range st.w.Workloads {
			for k, pn := range podNamesOf(&st.w.Workloads[i]) {
				if k < 2 && len(pods) < 6 { // two pods per owner keep the owner-keyed cache in play, seven pods bound the cost
					pods = append(pods, struct {
						name string
						wl   *world.Workload
					}{pn, &st.w.Workloads[i]})
				}
			}
		}
		objs, err := observe.ObjectsFromWorld(st.w)
		if err != nil {
			r.Discarded = "objects: " + err.Error()
			return
		}
		fresh, cr := observe.NewEngineWithObjects(objs)
		if cr.Panic != "" || cr.HasErr {
			r.Ev("fresh_engine_failed", 1)
			return
		}
		m := &refmodel.Model{W: st.w}
		nv := 0
		for _, s := range pods {
			for _, d := range pods {
				if s.name == d.name {
					continue
				}
				var mc *refmodel.Conn
				for _, pr := range []string{"TCP", "UDP"} {
					for _, p := range ports {
						key := fmt.Sprintf("%s>%s/%s/%d", s.name, d.name, pr, p)
						h0 := st.eng.CacheHits()
						a := st.eng.Check(s.name, d.name, pr, fmt.Sprint(p))
						fromCache := st.eng.CacheHits() > h0
						r.Ev("queries", 1)
						if fromCache {
							r.Ev("cache_hits", 1)
							if afterUpdate {
								r.Ev("cache_hits_after_update", 1)
								cacheAfterUpdate = true
							}
						}
						b := fresh.Check(s.name, d.name, pr, fmt.Sprint(p))
						if mc == nil {
							var fl refmodel.Flags
							mc = m.Allowed(refmodel.WorkloadPeer(st.w, s.wl), refmodel.WorkloadPeer(st.w, d.wl), &fl)
						}
						if a.Panic != "" {
							nv++
							if nv <= 2 {
								r.Violate("c15.total", "c15.total:query:panic", "an answer", "panic: "+a.Panic, key)
							}
							continue
						}
						if b.Panic == "" && !b.HasErr && b.Allowed != mc.Has(pr, p) {
							// the comparison engine is asked many questions too and may be misled by its own memory: ask an engine built
							// for this one question; if IT agrees with the model, it is the arbiter
							if one, cr1 := observe.NewEngineWithObjects(objs); cr1.Panic == "" && !cr1.HasErr {
								if c1 := one.Check(s.name, d.name, pr, fmt.Sprint(p)); c1.Panic == "" && !c1.HasErr && c1.Allowed == mc.Has(pr, p) {
									r.Ev("arbitrated_by_a_single_question_engine", 1)
									b = c1
								}
							}
						}
						if b.Panic != "" || b.HasErr || b.Allowed != mc.Has(pr, p) {
							r.Ev("fresh_vs_model_disagreements_not_judged", 1)
							continue
						}
						if a.HasErr || a.Allowed != b.Allowed {
							nv++
							if nv <= 2 {
								shape := "stale"
								if !fromCache {
									shape = "wrong-uncached"
								}
								last := ""
								if len(st.log) > 0 {
									last = st.log[len(st.log)-1]
								}
								kind := "none"
								if f := strings.Fields(last); len(f) > 1 {
									kind = f[0] + "-" + f[1]
								}
								r.Violate("c15.history", "c15.history:"+kind+":"+shape, fmt.Sprintf("%v (fresh engine with the current objects, agrees with the model)", b.Allowed),
									fmt.Sprintf("%v err=%q fromCache=%v", a.Allowed, a.Err, fromCache), key+" after ["+last+"] ; history: "+strings.Join(st.log, " ; "))
							}
							continue
						}
						if old, ok := prev[key]; ok && old != a.Allowed {
							r.Ev("answers_changed_by_a_step", 1)
							changed = true
						}
						prev[key] = a.Allowed
					}
				}
			}
		}
	}
	check(false)
	check(false) // same queries again: now (partly) from the cache
	for step := 0; step < steps && len(r.Violations) == 0; step++ {
		r.Ev("steps", 1)
		op := rng.Pick(g, []string{"podPending", "podRelabel", "podDelete", "podAdd", "podPorts", "podRecreate", "nsRelabel", "nsRelabel", "nsDelete", "npInsert", "npDelete", "npReplace",
			"anpInsert", "anpInsert", "anpDelete", "banpInsert", "banpDelete", "banpReplace", "deleteAbsent", "deleteAbsent", "requery", "bulkSet", "clearRepopulate", "failingBulkSet", "anpRejectedInsert", "anpRejectedInsert", "wlRescale", "wlRescale", "podTouch", "podTouch"})
		done := false
		switch op {
		case "podRelabel":
			if len(st.w.Workloads) > 0 {
				wl := &st.w.Workloads[g.Intn(len(st.w.Workloads))]
				nl := map[string]string{}
				for _, k := range world.Keys {
					if g.P(0.55) {
						nl[k] = rng.Pick(g, world.Vals)
					}
				}
				wl.Labels = nl
				st.insertWorkload(wl)
				done = true
			}
		case "podPending":
			// the pods of a workload are re-inserted relabelled but WITHOUT status (Pending: no host address, no pod addresses). The
			// engine may refuse such a pod (then nothing changed) or take it (then the relabelled pod is what it holds) - never both
			if len(st.w.Workloads) > 0 {
				wl := &st.w.Workloads[g.Intn(len(st.w.Workloads))]
				old := wl.Labels
				nl := map[string]string{}
				for _, k := range world.Keys {
					if g.P(0.55) {
						nl[k] = rng.Pick(g, world.Vals)
					}
				}
				wl.Labels, wl.Pending = nl, true
				taken, refused := 0, 0
				for _, d := range world.WorkloadDocs(wl) {
					if st.call("insert Pod "+d.Ns+"/"+d.Name+" (Pending, relabelled)", st.eng.Insert(st.obj(d)), false) {
						taken++
					} else {
						refused++
					}
				}
				wl.Pending = false
				if taken == 0 {
					wl.Labels = old // refused: the engine still holds the previous version
				} else if refused > 0 {
					st.insertWorkload(wl) // mixed outcome: bring every pod of the owner to the new version the regular way
				}
				r.Ev("op_podPending", 1)
				done = true
			}
		case "podPorts":
			if len(st.w.Workloads) > 0 {
				wl := &st.w.Workloads[g.Intn(len(st.w.Workloads))]
				wl.Ports = world.GenCPorts(g, cfg)
				st.insertWorkload(wl)
				done = true
			}
		case "wlRescale":
			// a workload OBJECT (Deployment, StatefulSet) is inserted again with another replica count - some of its pods are replaced, some
			// are new - and, most of the time, other container ports behind the same names; its labels stay as they are
			cands := []int{}
			for i := range st.w.Workloads {
				if k := st.w.Workloads[i].Kind; k != world.KPod && k != world.KOwnedPods {
					cands = append(cands, i)
				}
			}
			if len(cands) > 0 {
				wl := &st.w.Workloads[rng.Pick(g, cands)]
				cur := 1
				if wl.Replicas != nil {
					cur = *wl.Replicas
				}
				n := rng.Pick(g, []int{1, 2, 3})
				if n <= cur && g.P(0.7) {
					n = cur + 1
				}
				if n < cur {
					// pods beyond the new count go away first (the engine is told so, as a watch would tell it)
					st.deleteWorkload(wl)
				}
				wl.Replicas = &n
				if g.P(0.7) {
					wl.Ports = world.GenCPorts(g, cfg)
				}
				st.insertWorkload(wl)
				done = true
			}
		case "podTouch":
			// the pods (or the workload object) are inserted once more exactly as the engine holds them - what a watch delivers on a
			// status update; nothing an answer depends on changed. Most of the time the owner is then queried, all its pods go away and
			// it comes back under the same name and labels with other ports: bookkeeping the repeated insert left behind must not keep
			// answers about the previous pods alive
			if len(st.w.Workloads) > 0 {
				wl := &st.w.Workloads[g.Intn(len(st.w.Workloads))]
				st.insertWorkload(wl)
				if g.P(0.3) {
					st.insertWorkload(wl)
				}
				if g.P(0.7) {
					check(true)
					st.deleteWorkload(wl)
					wl.Ports = world.GenCPorts(g, cfg)
					st.insertWorkload(wl)
				}
				done = true
			}
		case "podRecreate": // all pods of an owner go away, then the owner comes back with the same name and labels but other ports
			if len(st.w.Workloads) > 0 {
				wl := &st.w.Workloads[g.Intn(len(st.w.Workloads))]
				st.deleteWorkload(wl)
				wl.Ports = world.GenCPorts(g, cfg)
				if wl.Kind == world.KOwnedPods {
					wl.NPods = g.Range(1, 2)
				}
				st.insertWorkload(wl)
				done = true
			}
		case "podDelete":
			if len(st.w.Workloads) > 2 {
				i := g.Intn(len(st.w.Workloads))
				st.deleteWorkload(&st.w.Workloads[i])
				st.w.Workloads = append(st.w.Workloads[:i], st.w.Workloads[i+1:]...)
				done = true
			}
		case "podAdd":
			if len(st.w.Workloads) < 5 {
				nextID++
				wl := world.Workload{Ns: rng.Pick(g, world.NsNames), Name: fmt.Sprintf("w%d", nextID), Kind: rng.Pick(g, cfg.Kinds), Labels: map[string]string{}, Ports: world.GenCPorts(g, cfg)}
				for _, k := range world.Keys {
					if g.P(0.55) {
						wl.Labels[k] = rng.Pick(g, world.Vals)
					}
				}
				if wl.Kind == world.KOwnedPods {
					wl.NPods = g.Range(1, 2)
					wl.OwnerKind = world.KReplicaSet
				}
				st.w.Workloads = append(st.w.Workloads, wl)
				st.insertWorkload(&st.w.Workloads[len(st.w.Workloads)-1])
				done = true
			}
		case "nsRelabel":
			ns := &st.w.Namespaces[g.Intn(len(st.w.Namespaces))]
			ns.HasObj = true
			ns.Labels = map[string]string{}
			for _, k := range world.Keys {
				if g.P(0.45) {
					ns.Labels[k] = rng.Pick(g, world.Vals)
				}
			}
			st.call("insert Namespace "+ns.Name, st.eng.Insert(st.obj(world.NamespaceDoc(ns))), true)
			done = true
		case "nsDelete":
			ns := &st.w.Namespaces[g.Intn(len(st.w.Namespaces))]
			if ns.HasObj {
				st.call("delete Namespace "+ns.Name, st.eng.Delete(st.obj(world.NamespaceDoc(ns))), true)
				ns.HasObj, ns.Labels = false, nil
				done = true
			}
		case "npInsert":
			nextID++
			np := world.GenNetPol(g, st.w, cfg, rng.Pick(g, world.NsNames), fmt.Sprintf("np%d", nextID))
			st.w.NetPols = append(st.w.NetPols, np)
			st.call("insert NetworkPolicy "+np.Ns+"/"+np.Name, st.eng.Insert(st.obj(world.NetPolDoc(&np))), true)
			done = true
		case "npDelete", "npReplace":
			if len(st.w.NetPols) > 0 {
				i := g.Intn(len(st.w.NetPols))
				np := st.w.NetPols[i]
				st.call("delete NetworkPolicy "+np.Ns+"/"+np.Name, st.eng.Delete(st.obj(world.NetPolDoc(&np))), true)
				st.w.NetPols = append(st.w.NetPols[:i], st.w.NetPols[i+1:]...)
				if op == "npReplace" {
					nn := world.GenNetPol(g, st.w, cfg, np.Ns, np.Name)
					st.w.NetPols = append(st.w.NetPols, nn)
					st.call("insert NetworkPolicy "+nn.Ns+"/"+nn.Name, st.eng.Insert(st.obj(world.NetPolDoc(&nn))), true)
				}
				done = true
			}
		case "anpInsert":
			if len(st.w.ANPs) < 4 {
				pri := -1
				for _, p := range priPool {
					if !usedPri[p] {
						pri = p
						break
					}
				}
				if pri >= 0 {
					usedPri[pri] = true
					nextID++
					a := world.ANP{Name: fmt.Sprintf("anp%d", nextID), Priority: pri, Subject: world.GenSubject(g, st.w)}
					a.Ingress = world.GenANPRules(g, st.w, cfg, false, 2)
					a.Egress = world.GenANPRules(g, st.w, cfg, false, 2)
					st.w.ANPs = append(st.w.ANPs, a)
					o := st.obj(world.ANPDoc(&a))
					st.anps[a.Name] = o
					st.call("insert AdminNetworkPolicy "+a.Name, st.eng.Insert(o), true)
					done = true
				}
			}
		case "anpDelete":
			if len(st.w.ANPs) > 0 {
				i := g.Intn(len(st.w.ANPs))
				a := st.w.ANPs[i]
				o := st.anps[a.Name]
				how := "inserted-instance"
				if g.P(0.5) || o == nil {
					o = st.obj(world.ANPDoc(&a)) // an equal object, as a watch event would deliver
					how = "equal-object"
				}
				st.call("delete AdminNetworkPolicy "+a.Name+" ("+how+")", st.eng.Delete(o), true)
				delete(st.anps, a.Name)
				delete(usedPri, a.Priority)
				st.w.ANPs = append(st.w.ANPs[:i], st.w.ANPs[i+1:]...)
				done = true
			}
		case "banpInsert", "banpReplace":
			if st.w.BANP != nil && op == "banpReplace" {
				st.call("delete BaselineAdminNetworkPolicy default", st.eng.Delete(st.obj(world.BANPDoc(st.w.BANP))), true)
				st.w.BANP = nil
			}
			if st.w.BANP == nil {
				b := &world.BANP{Name: "default", Subject: world.GenSubject(g, st.w)}
				b.Ingress = world.GenANPRules(g, st.w, cfg, true, 2)
				b.Egress = world.GenANPRules(g, st.w, cfg, true, 2)
				st.w.BANP = b
				st.call("insert BaselineAdminNetworkPolicy default", st.eng.Insert(st.obj(world.BANPDoc(b))), true)
				done = true
			}
		case "banpDelete":
			if st.w.BANP != nil {
				st.call("delete BaselineAdminNetworkPolicy default", st.eng.Delete(st.obj(world.BANPDoc(st.w.BANP))), true)
				st.w.BANP = nil
				done = true
			}
		case "deleteAbsent":
			r.Ev("deletes_of_absent_objects", 1)
			switch g.Intn(5) {
			case 0:
				wl := world.Workload{Ns: rng.Pick(g, world.NsNames), Name: "ghost", Kind: world.KPod}
				st.call("delete-absent Pod "+wl.Ns+"/ghost", st.eng.Delete(st.obj(world.WorkloadDocs(&wl)[0])), true)
			case 1:
				np := world.NetPol{Ns: rng.Pick(g, world.NsNames), Name: "ghost-np"}
				st.call("delete-absent NetworkPolicy "+np.Ns+"/ghost-np", st.eng.Delete(st.obj(world.NetPolDoc(&np))), true)
			case 2:
				a := world.ANP{Name: "ghost-anp", Priority: 7, Subject: world.Subject{Namespaces: &world.Sel{}}}
				st.call("delete-absent AdminNetworkPolicy ghost-anp", st.eng.Delete(st.obj(world.ANPDoc(&a))), true)
			case 3:
				if st.w.BANP == nil {
					b := world.BANP{Name: "default", Subject: world.Subject{Namespaces: &world.Sel{}}}
					st.call("delete-absent BaselineAdminNetworkPolicy default", st.eng.Delete(st.obj(world.BANPDoc(&b))), true)
				}
			default:
				ns := world.Namespace{Name: "ghost-ns"}
				st.call("delete-absent Namespace ghost-ns", st.eng.Delete(st.obj(world.NamespaceDoc(&ns))), true)
			}
			done = true
		case "bulkSet": // SetResources in the middle of a history: a relabelled namespace, a relabelled owner and a new policy at once
			objs := []runtime.Object{}
			ns := &st.w.Namespaces[g.Intn(len(st.w.Namespaces))]
			ns.HasObj = true
			ns.Labels = map[string]string{}
			for _, k := range world.Keys {
				if g.P(0.45) {
					ns.Labels[k] = rng.Pick(g, world.Vals)
				}
			}
			objs = append(objs, st.obj(world.NamespaceDoc(ns)))
			if len(st.w.Workloads) > 0 {
				wl := &st.w.Workloads[g.Intn(len(st.w.Workloads))]
				wl.Labels = map[string]string{}
				for _, k := range world.Keys {
					if g.P(0.55) {
						wl.Labels[k] = rng.Pick(g, world.Vals)
					}
				}
				for _, d := range world.WorkloadDocs(wl) {
					objs = append(objs, st.obj(d))
				}
			}
			nextID++
			np := world.GenNetPol(g, st.w, cfg, rng.Pick(g, world.NsNames), fmt.Sprintf("np%d", nextID))
			st.w.NetPols = append(st.w.NetPols, np)
			objs = append(objs, st.obj(world.NetPolDoc(&np)))
			res, rest := st.eng.SetResources(objs)
			st.call("SetResources namespace+pods+policy", res, true)
			for _, o := range rest { // SetResources takes namespaces, pods and NetworkPolicies; a workload object goes in on its own
				st.call("insert workload object (relabelled)", st.eng.Insert(o), true)
			}
			r.Ev("op_SetResources", 1)
			done = true
		case "clearRepopulate": // ClearResources, then the same namespaces and pods come back - but only some of the policies
			st.call("ClearResources", st.eng.Clear(), true)
			keep := []world.NetPol{}
			dropNs := rng.Pick(g, world.NsNames) // no NetworkPolicy comes back into this namespace
			for _, np := range st.w.NetPols {
				if np.Ns != dropNs && g.P(0.7) {
					keep = append(keep, np)
				}
			}
			st.w.NetPols = keep
			if g.P(0.5) {
				st.w.ANPs = nil
			}
			if g.P(0.5) {
				st.w.BANP = nil
			}
			st.anps = map[string]runtime.Object{}
			docs := st.w.Docs()
			rng.Shuffle(g, docs)
			objs := []runtime.Object{}
			kinds := map[runtime.Object]world.Doc{}
			for _, d := range docs {
				o := st.obj(d)
				if d.Kind == "AdminNetworkPolicy" {
					st.anps[d.Name] = o
				}
				objs = append(objs, o)
				kinds[o] = d
			}
			if g.P(0.5) {
				res, rest := st.eng.SetResources(objs)
				st.call("SetResources after ClearResources", res, true)
				objs = rest
			}
			for _, o := range objs {
				d := kinds[o]
				st.call("insert "+d.Kind+" "+d.Ns+"/"+d.Name+" (after ClearResources)", st.eng.Insert(o), true)
			}
			done = true
		case "failingBulkSet":
			// a SetResources call that fails half-way: a relabelled namespace next to a NetworkPolicy the engine already holds (rejected as a
			// duplicate). Whether the namespace of the failed batch is kept (the documented "simply calls InsertObject") or not (an atomic
			// setter) is left open: the answers afterwards - cached ones and fresh ones on a port never asked before - must ALL be those
			// of a fresh engine with the namespace relabelled, or ALL those of a fresh engine without; a mixture is a leak.
			if len(st.w.NetPols) == 0 || len(st.w.Workloads) < 2 {
				break
			}
			wB := st.w.Clone()
			wA := st.w.Clone()
			ni := g.Intn(len(wA.Namespaces))
			wA.Namespaces[ni].HasObj = true
			wA.Namespaces[ni].Labels = map[string]string{}
			for _, k := range world.Keys {
				if g.P(0.5) {
					wA.Namespaces[ni].Labels[k] = rng.Pick(g, world.Vals)
				}
			}
			dup := st.w.NetPols[g.Intn(len(st.w.NetPols))]
			objs := []runtime.Object{st.obj(world.NamespaceDoc(&wA.Namespaces[ni])), st.obj(world.NetPolDoc(&dup))}
			res, _ := st.eng.SetResources(objs)
			st.log = append(st.log, "SetResources failing: namespace "+wA.Namespaces[ni].Name+" relabelled + duplicate policy "+dup.Ns+"/"+dup.Name)
			if res.Panic != "" {
				r.Violate("c15.total", "c15.total:SetResources:panic", "an error, never a crash", "panic: "+res.Panic, "")
				break
			}
			r.Ev("op_failingBulkSet", 1)
			if !res.HasErr {
				r.Ev("failing_bulk_set_accepted", 1) // the duplicate was accepted: then the batch is applied and judged like any other
			}
			oa, errA := observe.ObjectsFromWorld(wA)
			ob, errB := observe.ObjectsFromWorld(wB)
			if errA != nil || errB != nil {
				break
			}
			fa, ca := observe.NewEngineWithObjects(oa)
			fb, cb := observe.NewEngineWithObjects(ob)
			if ca.Panic != "" || ca.HasErr || cb.Panic != "" || cb.HasErr {
				break
			}
			okA, okB := true, true
			witness := ""
			newPort := 20000 + step
			pods := []string{}
			for i := range st.w.Workloads {
				for k, pn := range podNamesOf(&st.w.Workloads[i]) {
					if k < 2 && len(pods) < 6 {
						pods = append(pods, pn)
					}
				}
			}
			for _, s0 := range pods {
				for _, d0 := range pods {
					if s0 == d0 {
						continue
					}
					for _, p := range append(append([]int{}, ports...), newPort) {
						a := st.eng.Check(s0, d0, "TCP", fmt.Sprint(p))
						xa, xb := fa.Check(s0, d0, "TCP", fmt.Sprint(p)), fb.Check(s0, d0, "TCP", fmt.Sprint(p))
						if a.Panic != "" || a.HasErr || xa.HasErr || xb.HasErr {
							continue
						}
						r.Ev("queries", 1)
						if a.Allowed != xa.Allowed {
							okA = false
							witness += fmt.Sprintf(" [%s>%s/%d engine=%v relabelled=%v]", s0, d0, p, a.Allowed, xa.Allowed)
						}
						if a.Allowed != xb.Allowed {
							okB = false
							witness += fmt.Sprintf(" [%s>%s/%d engine=%v unchanged=%v]", s0, d0, p, a.Allowed, xb.Allowed)
						}
					}
				}
			}
			if !okA && !okB {
				if len(witness) > 600 {
					witness = witness[:600]
				}
				r.Violate("c15.history", "c15.history:failed-SetResources:mixed-state", "all answers those of a fresh engine with the failed batch's namespace kept, or all those of one without it",
					"a mixture:"+witness, "history: "+strings.Join(st.log, " ; "))
				break
			}
			if okA {
				st.w = wA
			}
			prev = map[string]bool{}
			continue
		case "anpRejectedInsert":
			// an AdminNetworkPolicy whose insert is REJECTED (a priority already in use, or one outside 0..1000), possibly followed by the
			// insert of a perfectly valid one while the rejected one may still be around, then the rejected one is deleted. Afterwards
			// the rejected policy is certainly not a current object; the valid one is a current object if its insert succeeded, and if
			// that insert returned an error too, all answers must be those of a fresh engine with it or all those of one without it.
			if len(st.w.ANPs) == 0 || len(st.w.ANPs) > 3 {
				break
			}
			nextID++
			rej := world.ANP{Name: fmt.Sprintf("rejected%d", nextID), Subject: world.GenSubject(g, st.w)}
			rej.Ingress = world.GenANPRules(g, st.w, cfg, false, 2)
			rej.Egress = world.GenANPRules(g, st.w, cfg, false, 2)
			if g.P(0.5) {
				rej.Priority = st.w.ANPs[g.Intn(len(st.w.ANPs))].Priority
			} else {
				rej.Priority = rng.Pick(g, []int{-1, 1001, 5000})
			}
			if st.call(fmt.Sprintf("insert AdminNetworkPolicy %s (priority %d, to be rejected)", rej.Name, rej.Priority), st.eng.Insert(st.obj(world.ANPDoc(&rej))), false) {
				r.Ev("rejected_anp_insert_was_accepted", 1)
			}
			r.Ev("op_anpRejectedInsert", 1)
			var valid *world.ANP
			validErr := false
			if g.P(0.6) {
				pri := -1
				for _, p := range priPool {
					if !usedPri[p] {
						pri = p
						break
					}
				}
				if pri >= 0 {
					nextID++
					a := world.ANP{Name: fmt.Sprintf("anp%d", nextID), Priority: pri, Subject: world.GenSubject(g, st.w)}
					a.Ingress = world.GenANPRules(g, st.w, cfg, false, 2)
					a.Egress = world.GenANPRules(g, st.w, cfg, false, 2)
					valid = &a
					o := st.obj(world.ANPDoc(&a))
					validErr = !st.call("insert AdminNetworkPolicy "+a.Name+" (valid, while a rejected one may be held)", st.eng.Insert(o), false)
					if len(r.Violations) > 0 {
						break
					}
					if !validErr {
						usedPri[pri] = true
						st.anps[a.Name] = o
						st.w.ANPs = append(st.w.ANPs, a)
						valid = nil
					}
				}
			}
			st.call("delete AdminNetworkPolicy "+rej.Name+" (the rejected one)", st.eng.Delete(st.obj(world.ANPDoc(&rej))), true)
			if valid == nil {
				done = true
				break
			}
			r.Ev("valid_anp_insert_failed_next_to_a_rejected_one", 1)
			wB := st.w.Clone()
			wA := st.w.Clone()
			wA.ANPs = append(wA.ANPs, *valid)
			oa, errA := observe.ObjectsFromWorld(wA)
			ob, errB := observe.ObjectsFromWorld(wB)
			if errA != nil || errB != nil {
				break
			}
			fa, ca := observe.NewEngineWithObjects(oa)
			fb, cb := observe.NewEngineWithObjects(ob)
			if ca.Panic != "" || ca.HasErr || cb.Panic != "" || cb.HasErr {
				break
			}
			okA, okB := true, true
			witness := ""
			pods := []string{}
			for i := range st.w.Workloads {
				for k, pn := range podNamesOf(&st.w.Workloads[i]) {
					if k < 2 && len(pods) < 6 {
						pods = append(pods, pn)
					}
				}
			}
			for _, s0 := range pods {
				for _, d0 := range pods {
					if s0 == d0 {
						continue
					}
					for _, pr := range []string{"TCP", "UDP"} {
						for _, p := range ports {
							a := st.eng.Check(s0, d0, pr, fmt.Sprint(p))
							xa, xb := fa.Check(s0, d0, pr, fmt.Sprint(p)), fb.Check(s0, d0, pr, fmt.Sprint(p))
							if a.Panic != "" || a.HasErr || xa.HasErr || xb.HasErr || xa.Panic != "" || xb.Panic != "" {
								continue
							}
							r.Ev("queries", 1)
							if a.Allowed != xa.Allowed {
								okA = false
								witness += fmt.Sprintf(" [%s>%s/%s/%d engine=%v with-it=%v]", s0, d0, pr, p, a.Allowed, xa.Allowed)
							}
							if a.Allowed != xb.Allowed {
								okB = false
								witness += fmt.Sprintf(" [%s>%s/%s/%d engine=%v without-it=%v]", s0, d0, pr, p, a.Allowed, xb.Allowed)
							}
						}
					}
				}
			}
			if !okA && !okB {
				if len(witness) > 600 {
					witness = witness[:600]
				}
				r.Violate("c15.history", "c15.history:failed-anp-insert:mixed-state", "all answers those of a fresh engine holding the policy whose insert returned an error, or all those of one without it",
					"neither:"+witness, "history: "+strings.Join(st.log, " ; "))
				break
			}
			if okA && !okB {
				r.Ev("policy_of_a_failed_insert_is_held", 1)
			}
			if okA {
				st.w = wA
				usedPri[valid.Priority] = true
			} else {
				// not held as far as the answers tell; a delete makes that certain whatever the engine kept
				st.call("delete AdminNetworkPolicy "+valid.Name+" (its insert failed)", st.eng.Delete(st.obj(world.ANPDoc(valid))), true)
			}
			prev = map[string]bool{}
			continue
		case "requery":
			done = true
		}
		if !done {
			continue
		}
		r.Ev("op_"+op, 1)
		r.Feat(op)
		check(op != "requery")
		if g.P(0.3) {
			check(false)
		}
	}
	if c.Race && len(r.Violations) == 0 {
		// secondary sanitizer pass only: concurrent CheckIfAllowed calls on the quiescent engine, for the race detector to watch
		// (reports are counted from the race log by the driver and recorded as observations, they decide nothing)
		pods := []string{}
		for i := range st.w.Workloads {
			pods = append(pods, podNamesOf(&st.w.Workloads[i])...)
		}
		if len(pods) >= 2 {
			var wg sync.WaitGroup
			for t := 0; t < 4; t++ {
				wg.Add(1)
				go func(t int) {
					defer wg.Done()
					for k := 0; k < 50; k++ {
						st.eng.Check(pods[(t+k)%len(pods)], pods[(t+k+1)%len(pods)], "TCP", "80")
					}
				}(t)
			}
			wg.Wait()
			r.Ev("concurrent_query_batches_under_race_build", 1)
		}
	}
	r.Hash = fmt.Sprintf("%x", rngHash(strings.Join(st.log, ";")))
	r.Effective = true
	_ = cacheAfterUpdate // reported (cache_hits_after_update), not demanded: an engine that remembers less is just as right
	r.NonTrivial = changed
	if c.Idx%151 == 0 || len(r.Violations) > 0 {
		r.SetSample(map[string]interface{}{"initial_world": shortWorld(w), "history": st.log, "ports_queried": ports})
	}
}

func rngHash(s string) uint64 {
	h := uint64(1469598103934665603)
	for i := 0; i < len(s); i++ {
		h ^= uint64(s[i])
		h *= 1099511628211
	}
	return h
}
