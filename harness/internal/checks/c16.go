package checks

import (
	"sort"
	"strings"

	"verif/harness/internal/observe"
	"verif/harness/internal/rng"
	"verif/harness/internal/run"
	"verif/harness/internal/world"
)

func init() {
	run.Register(&run.Check{
		ID:    "C16",
		Level: "exploration",
		Rule: "cases: the 212 manifest directories shipped with the repository with a focus name drawn from their own peers, then generated worlds (NetworkPolicy / ANP / Ingress+Route families, some with one name shared by workloads of two namespaces) and a focus name W drawn from: a present name, its namespace/name form, a shared name, an absent name, a namespace name, a prefix of a name, a proper part / near miss of a real name or namespace/name (suffixes, prefixes, other letter case, doubled or trailing separator; a third of the worlds also hold 'twins' whose name or namespace ends with another workload's), a wrong-namespace form, 'ingress-controller' with and without ingress resources; " +
			"the library is run with and without WithFocusWorkload(W) and the focused entries must equal exactly the unfocused entries whose source or destination is a workload whose name or namespace/name equals W (or whose source is the ingress controller when W is ingress-controller), with identical connections; when nothing matches: empty result, nil error, a non-fatal warning in Errors(); for a third of the cases the focused run is also rendered in all five formats and parsed back (the parsers of C09): each must encode exactly the filtered relation; " +
			"non-trivial = the filter keeps some but not all entries; distinct = world hash + W",
		Assumptions:       []string{"the filter is recomputed by the harness from the peers' Name()/Namespace() accessors of the unfocused run"},
		NumCases:          func(tier string, _ int64) int { return tierN(tier, 1200, 40000) + nFix(tier) },
		Run:               runC16,
		MinNonTrivial:     200,
		MinEffectiveShare: 0.3,
		RequiredEvents: map[string]int64{"entries_compared": 5000, "focus_present": 100, "focus_nsname": 100, "focus_shared": 20, "focus_absent": 30, "focus_nearname": 50, "real_workload_named_ingress_controller": 20, "focus_nsname_on_shared_name_with_both_targeted": 20,
			"focus_ingress-controller": 50, "nothing_matches_cases": 100, "ingress_controller_lines_kept": 20, "focused_formats_parsed": 300},
	})
}

func entryKeyed(res *observe.ListResult) map[[2]string]string {
	m := map[[2]string]string{}
	for _, e := range res.Entries {
		m[[2]string{e.Src, e.Dst}] = e.Conn.String()
	}
	return m
}

func runC16Fixture(c *run.Ctx) {
	r := c.Res
	g := c.R("fixture")
	dir := fixtureAt(c.Repo, c.Tier, c.Idx)
	if dir == "" {
		r.Discarded = "no fixtures"
		return
	}
	r.Name = "fixture " + dir
	probe := observe.List(dir, observe.ListOpts{})
	if probe.Panic != "" || probe.HasErr {
		r.Ev("unfocused_errors", 1)
		return
	}
	names := []string{}
	for _, p := range probe.Peers {
		if !p.IsIP {
			names = append(names, p.Name, p.Ns+"/"+p.Name)
		}
	}
	class, focus := "absent", "nosuch"
	if len(names) > 0 && g.P(0.8) {
		class, focus = "present", rng.Pick(g, names)
	} else if g.P(0.5) {
		class, focus = "ingress-controller", "ingress-controller"
	}
	hasIng := false
	objs, _ := observe.ParseDir(dir)
	for i := range objs {
		if objs[i].Kind == "Ingress" || objs[i].Kind == "Route" {
			hasIng = true
		}
	}
	r.Ev("focus_fixture", 1)
	r.Hash = "fixture/" + dir + "/" + focus
	full, _, want := c16Judge(r, dir, focus, class, hasIng)
	if full != nil {
		r.Effective = len(want) > 0
		r.NonTrivial = len(want) > 0 && len(want) < len(full.Entries)
	}
}

func runC16(c *run.Ctx) {
	r := c.Res
	g := c.R("world")
	if c.Idx < nFix(c.Tier) {
		runC16Fixture(c)
		return
	}
	cfg := world.DefaultCfg()
	cfg.KindTwins, cfg.SharedNames, cfg.DottedNames = 0.15, 0.1, 0.2
	cfg.NamedEgressIP = 0
	if g.P(0.3) {
		cfg.Kinds = world.AllWorkloadKinds
	}
	var w *world.World
	switch c.Idx % 4 {
	case 0:
		w = world.GenNPWorld(g, cfg)
	case 1:
		w = world.GenPrecedenceWorld(g, cfg)
	default:
		w = world.GenNPWorld(g, cfg)
	}
	// a name shared by workloads in different namespaces (same kind most of the time)
	shared := ""
	must := []int{}
	adminOverIngress := false
	if g.P(0.5) && len(w.Workloads) >= 2 {
		for i := 1; i < len(w.Workloads); i++ {
			if w.Workloads[i].Ns != w.Workloads[0].Ns {
				w.Workloads[i].Name = w.Workloads[0].Name
				if g.P(0.7) {
					o := w.Workloads[0]
					w.Workloads[i].Kind, w.Workloads[i].Replicas, w.Workloads[i].OwnerKind, w.Workloads[i].NPods, w.Workloads[i].ExtraOwners = o.Kind, nil, o.OwnerKind, o.NPods, ""
				}
				shared = w.Workloads[0].Name
				must = []int{0, i}
				break
			}
		}
	}
	if c.Idx%4 >= 2 { // the Ingress/Route family; workloads sharing a name are both targeted half of the time
		if g.P(0.5) {
			must = nil
		}
		world.GenIngressResourcesTargeting(g, w, must)
		if ga := c.R("admin-over-ingress"); ga.P(0.35) {
			// an admin policy whose subject takes in EVERY namespace - the synthetic one of the ingress controller included - and whose
			// egress rules decide some of the controller's connections: whatever they decide, the focused run must decide the same
			subj := world.Subject{Namespaces: &world.Sel{}}
			if ga.P(0.4) {
				subj = world.Subject{Namespaces: &world.Sel{ME: []world.Req{{Key: world.MetaName, Op: "NotIn", Vals: []string{rng.Pick(ga, world.NsNames)}}}}}
			}
			rule := world.ANPRule{Name: "r0", Action: rng.Pick(ga, []string{"Deny", "Deny", "Allow", "Pass"}), Peers: []world.Subject{{Namespaces: &world.Sel{}}}}
			if ga.P(0.5) {
				rule.HasPorts = true
				rule.Ports = []world.ANPPort{{Kind: "range", Proto: "TCP", Port: 1, End: rng.Pick(ga, []int{80, 8080, 65535})}}
			}
			w.ANPs = append(w.ANPs, world.ANP{Name: "every-namespace", Priority: 7, Subject: subj, Egress: []world.ANPRule{rule}})
			r.Ev("ingress_worlds_with_an_admin_policy_over_every_namespace", 1)
			adminOverIngress = ga.P(0.6)
		}
	}
	// twins: a workload whose name ends with (and one whose namespace ends with) the name / namespace of another workload, so that a
	// filter comparing anything looser than the whole name or the whole namespace/name form over-matches
	twins := g.P(0.35) && len(w.Workloads) > 0
	if twins {
		o := w.Workloads[0]
		t1 := o
		t1.Name = "x-" + o.Name
		t2 := o
		t2.Ns = "x" + o.Ns
		if w.NsByName(t2.Ns) == nil {
			w.Namespaces = append(w.Namespaces, world.Namespace{Name: t2.Ns, HasObj: g.P(0.5), Labels: map[string]string{}})
		}
		t3 := o
		t3.Name = o.Name + "-x"
		w.Workloads = append(w.Workloads, t1, t2, t3)
		r.Feat("suffix_twins")
	}
	// a real workload may carry the very name of the synthetic ingress controller: focusing on it must keep both kinds of lines
	realIC := len(w.Ingresses)+len(w.Routes) > 0 && g.P(0.2)
	if realIC {
		w.Workloads[g.Intn(len(w.Workloads))].Name = "ingress-controller"
		r.Feat("real_workload_named_ingress_controller")
		r.Ev("real_workload_named_ingress_controller", 1)
	}
	wl := rng.Pick(g, w.Workloads)
	if twins && g.P(0.6) {
		wl = w.Workloads[0]
	}
	class := rng.Pick(g, []string{"present", "present", "nsname", "nsname", "shared", "absent", "namespace", "prefix", "wrongns", "ingress-controller", "ingress-controller", "slash", "shared", "bareslash", "nearname", "nearname"})
	if realIC && g.P(0.7) {
		class = "ingress-controller"
	}
	if adminOverIngress {
		class = "ingress-controller"
	}
	if len(must) == 2 && c.Idx%4 >= 2 && g.P(0.6) { // both workloads of the shared name are Ingress/Route targets: focus on one of them by namespace/name
		class = "nsname"
		wl = w.Workloads[must[g.Intn(2)]]
		r.Ev("focus_nsname_on_shared_name_with_both_targeted", 1)
	}
	focus := ""
	switch class {
	case "present":
		focus = wl.Name
	case "nsname":
		focus = wl.Ns + "/" + wl.Name
	case "shared":
		if shared == "" {
			class = "present"
			focus = wl.Name
		} else {
			focus = shared
		}
	case "absent":
		focus = "nosuch"
	case "namespace":
		focus = wl.Ns
	case "prefix":
		focus = wl.Name[:1]
	case "wrongns":
		focus = "other-ns/" + wl.Name
	case "ingress-controller":
		focus = "ingress-controller"
	case "slash":
		focus = wl.Ns + "/"
	case "bareslash":
		focus = "/"
	case "nearname": // a proper part or a near miss of a real name / namespace/name: must match nothing (unless it is itself a real name)
		full := wl.Ns + "/" + wl.Name
		focus = rng.Pick(g, []string{wl.Name[1:], full[1:], full[2:], "/" + wl.Name, wl.Name + "x", "x" + wl.Name, strings.ToUpper(wl.Name),
			full[:len(full)-1], wl.Name[:len(wl.Name)-1], strings.ToUpper(wl.Ns) + "/" + wl.Name, wl.Ns + "/" + wl.Name + "/", wl.Ns + "//" + wl.Name})
		if focus == "" {
			focus = "x"
		}
	}
	r.Ev("focus_"+class, 1)
	r.Feat("focus_" + class)
	r.Hash = w.Hash() + "/" + focus
	dir := c.Dir("input")
	if err := w.Write(dir, c.R("layout")); err != nil {
		r.Discarded = err.Error()
		return
	}
	full, foc, want := c16Judge(r, dir, focus, class, len(w.Ingresses)+len(w.Routes) > 0)
	if full == nil {
		return
	}
	r.Effective = len(want) > 0
	r.NonTrivial = len(want) > 0 && len(want) < len(full.Entries)
	if c.Idx%89 == 0 || len(r.Violations) > 0 {
		s := sampleOf(w, foc, 8)
		s["focus"] = focus
		s["unfocused_entries"] = len(full.Entries)
		s["expected_kept"] = len(want)
		r.SetSample(s)
	}
}

// c16Judge runs the unfocused and the focused analysis of a directory and compares them (the C16 oracle).
func c16Judge(r *run.CaseResult, dir, focus, class string, hasIngressObjects bool) (*observe.ListResult, *observe.ListResult, map[[2]string]string) {
	full := observe.List(dir, observe.ListOpts{})
	// for the namespace/name classes and a quarter of the others the focused result is the analyzer's SECOND analysis of the directory:
	// the focus an analyzer was created with holds for every analysis it makes
	twice := class == "nsname" || class == "shared" || rngHash(focus+"/"+class)%4 == 0
	if twice {
		r.Ev("focused_result_from_the_second_analysis_of_one_analyzer", 1)
	}
	foc := observe.List(dir, observe.ListOpts{Focus: focus, Twice: twice})
	if full.Panic != "" || foc.Panic != "" {
		r.Violate("c16.total", "c16.total:any:panic", "a result or an error", "panic: "+full.Panic+foc.Panic, "")
		return nil, nil, nil
	}
	if full.HasErr {
		r.Ev("unfocused_errors", 1)
		return nil, nil, nil
	}
	// recompute the filter from the unfocused run
	matches := func(p observe.PeerInfo) bool {
		return !p.IsIP && (p.Name == focus || p.Ns+"/"+p.Name == focus)
	}
	matching := map[string]bool{}
	anyMatch := false
	for _, p := range full.Peers {
		if matches(p) {
			matching[p.Str] = true
			anyMatch = true
		}
	}
	hasIC := false
	for _, e := range full.Entries {
		if e.Src == "{ingress-controller}" {
			hasIC = true
		}
	}
	want := map[[2]string]string{}
	for _, e := range full.Entries {
		keep := (!e.SrcIP && matching[e.Src]) || (!e.DstIP && matching[e.Dst]) || (focus == "ingress-controller" && e.Src == "{ingress-controller}")
		if keep {
			want[[2]string{e.Src, e.Dst}] = e.Conn.String()
			if e.Src == "{ingress-controller}" {
				r.Ev("ingress_controller_lines_kept", 1)
			}
		}
	}
	if foc.HasErr {
		r.Violate("c16.filter", "c16.filter:"+class+":error", "a (possibly empty) result, never an error", "error: "+foc.Err, "focus="+focus)
		return nil, nil, nil
	}
	got := entryKeyed(foc)
	r.Ev("entries_compared", int64(len(full.Entries)))
	diffs := []string{}
	for k, v := range want {
		if g2, ok := got[k]; !ok {
			diffs = append(diffs, "missing "+k[0]+" => "+k[1]+" : "+v)
		} else if g2 != v {
			diffs = append(diffs, "changed "+k[0]+" => "+k[1]+" : "+v+" vs "+g2)
		}
	}
	for k, v := range got {
		if _, ok := want[k]; !ok {
			diffs = append(diffs, "extra "+k[0]+" => "+k[1]+" : "+v)
		}
	}
	sort.Strings(diffs)
	if len(diffs) > 0 {
		shape := strings.Fields(diffs[0])[0]
		r.Violate("c16.filter", "c16.filter:"+class+":"+shape, "exactly the unfocused entries touching a workload matching W", strings.Join(diffs[:min(3, len(diffs))], " ; "), "focus="+focus)
	}
	// nothing matches: empty result + warning, never an error
	// W = ingress-controller "matches" as soon as the input has Ingress/Route objects (the controller then exists as a peer even
	// if every backend is blocked); a warning is demanded only when there is no such object at all.
	_ = hasIC
	nothing := !anyMatch && !(focus == "ingress-controller" && hasIngressObjects)
	if nothing {
		r.Ev("nothing_matches_cases", 1)
		warn := false
		for _, e := range foc.Errs {
			if !e.Fatal { // any non-fatal entry counts (an input without workloads is reported by a severe, non-fatal entry)
				warn = true
			}
		}
		if len(foc.Entries) != 0 {
			r.Violate("c16.absent", "c16.absent:"+class+":nonempty", "empty result when nothing matches W", "entries returned", "focus="+focus)
		}
		if !warn {
			r.Violate("c16.absent", "c16.absent:"+class+":nowarning", "a warning in Errors() when nothing matches W", "no non-fatal entry in Errors()", "focus="+focus)
		}
	}
	// "x all formats": every format of the focused run must encode exactly the filtered relation (C09's parsers)
	if len(r.Violations) == 0 && len(full.Entries) < 400 && (len(want)+len(focus))%3 == 0 {
		for _, f := range []string{"txt", "json", "csv", "md", "dot"} {
			fr := observe.List(dir, observe.ListOpts{Focus: focus, Format: f})
			if fr.Panic != "" || fr.HasErr || fr.OutErr != "" {
				continue
			}
			var ts []tuple
			var err error
			switch f {
			case "txt":
				ts, _, err = parseListTxt(fr.Output)
			case "json":
				ts, err = parseListJSON(fr.Output, false)
			case "csv":
				ts, err = parseListCSV(fr.Output)
			case "md":
				ts, err = parseListMD(fr.Output)
			default:
				ts, _, err = parseListDot(fr.Output)
			}
			if err != nil {
				r.Violate("c16.format", "c16.format:"+f+":unparsable", "focused output parses back", err.Error(), "focus="+focus)
				continue
			}
			r.Ev("focused_formats_parsed", 1)
			gotF := map[[2]string]string{}
			for _, t := range ts {
				gotF[[2]string{t.Src, t.Dst}] = t.Conn
			}
			bad := ""
			for k, v := range want {
				if gotF[k] != v {
					bad = "missing/changed " + k[0] + " => " + k[1] + " : " + v + " vs " + gotF[k]
				}
			}
			for k, v := range gotF {
				if _, ok := want[k]; !ok {
					bad = "extra " + k[0] + " => " + k[1] + " : " + v
				}
			}
			if bad != "" {
				r.Violate("c16.format", "c16.format:"+f+":differs", "the "+f+" output of the focused run encodes exactly the filtered relation", bad, "focus="+focus)
			}
		}
	}
	return full, foc, want
}
