package checks

import (
	"encoding/json"
	"fmt"
	"os"
	"path/filepath"
	"strings"

	"verif/harness/internal/observe"
	"verif/harness/internal/rng"
	"verif/harness/internal/run"
	"verif/harness/internal/world"
)

func init() {
	run.Register(&run.Check{
		ID:    "C17",
		Level: "exploration",
		Rule: "cases: a base world (NetworkPolicy / ANP+BANP / Ingress+Route families, all workloads Deployments) re-expressed three times with every workload drawn anew from {Deployment, ReplicaSet, StatefulSet, DaemonSet, Job, CronJob, ReplicationController, bare Pod, 1-3 Pods sharing one controller ownerReference} x replicas {absent,0,1,2,3}; " +
			"the reports must be point-wise equal after erasing the [Kind] suffix, the number of workload peers must equal the number of workloads, no peer may connect to itself; every tenth case is a name-collision world (same namespace/name under two controller kinds, a bare Pod named like a generated replica, a bare Pod named exactly like a controller workload, the same name in two namespaces) where each workload must still be its own peer; " +
			"non-trivial = the base report has a partial or missing connection and at least one workload changed kind; distinct = world hash + chosen expressions",
		Assumptions:       []string{"a workload's identity is (namespace, name, kind); pod template labels and container ports are copied verbatim into every expression"},
		NumCases:          func(tier string, _ int64) int { return tierN(tier, 700, 25000) },
		Run:               runC17,
		MinNonTrivial:     150,
		MinEffectiveShare: 0.5,
		RequiredEvents: map[string]int64{"points_compared": 30000, "kind_Deployment": 50, "kind_ReplicaSet": 50, "kind_StatefulSet": 50, "kind_DaemonSet": 50, "kind_Job": 50,
			"kind_CronJob": 50, "kind_ReplicationController": 50, "kind_Pod": 50, "kind_OwnedPods": 50, "replicas_0": 30, "replicas_multi": 50, "collision_worlds": 20, "worlds_with_namespace_omitted": 50, "owned_pods_with_extra_owner_references": 50},
	})
}

func stripKind(s string) string {
	if i := strings.LastIndexByte(s, '['); i > 0 && strings.HasSuffix(s, "]") {
		return s[:i]
	}
	return s
}

func reexpress(g *rng.R, w *world.World, r *run.CaseResult) (*world.World, string, bool) {
	v := w.Clone()
	desc := []string{}
	changed := false
	for i := range v.Workloads {
		wl := &v.Workloads[i]
		k := rng.Pick(g, world.AllWorkloadKinds)
		if k != wl.Kind {
			changed = true
		}
		wl.Kind = k
		wl.Replicas, wl.NPods, wl.OwnerKind, wl.ExtraOwners = nil, 0, "", ""
		r.Ev("kind_"+k, 1)
		switch k {
		case world.KDeployment, world.KReplicaSet, world.KStatefulSet, world.KRC, world.KJob:
			if g.P(0.75) {
				n := g.Intn(4)
				wl.Replicas = &n
				if n == 0 {
					r.Ev("replicas_0", 1)
				}
				if n > 1 {
					r.Ev("replicas_multi", 1)
				}
			}
		case world.KOwnedPods:
			wl.NPods = g.Range(1, 3)
			wl.OwnerKind = rng.Pick(g, []string{world.KReplicaSet, world.KStatefulSet, world.KDaemonSet, world.KJob, world.KRC})
			// "sharing one controller ownerReference": further owners that are not controllers, before or after it, change nothing
			wl.ExtraOwners = rng.Pick(g, []string{"", "", "before-false", "after-false", "before-omitted", "after-omitted", "both-false"})
			if wl.ExtraOwners != "" {
				r.Ev("owned_pods_with_extra_owner_references", 1)
			}
			// pods of one owner may name it under two apiVersions of the same kind (what a cluster upgrade leaves behind)
			wl.MixedOwnerAPI = wl.NPods >= 2 && g.P(0.4)
			if wl.MixedOwnerAPI {
				r.Ev("owned_pods_with_mixed_owner_api_versions", 1)
			}
		}
		desc = append(desc, fmt.Sprintf("%s:%s", wl.Name, k))
	}
	return v, strings.Join(desc, ","), changed
}

func workloadPeerCount(res *observe.ListResult) (int, map[string]bool) {
	set := map[string]bool{}
	for _, p := range res.Peers {
		if !p.IsIP {
			set[p.Str] = true
		}
	}
	return len(set), set
}

func runC17(c *run.Ctx) {
	r := c.Res
	g := c.R("world")
	cfg := world.DefaultCfg()
	cfg.SharedNames = 0.2 // twins: same name, kind and (half of the time) labels in two namespaces, other numbers behind their port names
	cfg.NamedEgressIP = 0
	cfg.MaxWorkloads = 5
	if c.Idx < len(c17Witnesses) {
		runC17Witness(c, c17Witnesses[c.Idx])
		return
	}
	if c.Idx%10 == 9 {
		runC17Collision(c, g, cfg)
		return
	}
	var w *world.World
	switch c.Idx % 3 {
	case 0:
		w = world.GenNPWorld(g, cfg)
	case 1:
		w = world.GenPrecedenceWorld(g, cfg)
	default:
		w = world.GenNPWorld(g, cfg)
		world.GenIngressResources(g, w)
	}
	world.AddTwinNamedPortPolicy(g, w) // only acts on worlds that hold true twins
	if c.Idx%4 == 1 {                  // workloads whose manifests carry no namespace (they live in "default"), for every kind
		world.AddDefaultNamespaceWorkloads(g, w, cfg)
		r.Ev("worlds_with_namespace_omitted", 1)
	}
	base := c.Dir("base")
	if err := w.Write(base, c.R("l0")); err != nil {
		r.Discarded = err.Error()
		return
	}
	a := observe.List(base, observe.ListOpts{})
	if a.Panic != "" {
		r.Violate("c17.total", "c17.total:any:panic", "a result or an error", "panic: "+a.Panic, "")
		return
	}
	if a.HasErr {
		r.Ev("base_errors", 1)
		return
	}
	partial := false
	for _, e := range a.Entries {
		if !e.All {
			partial = true
		}
	}
	if n, _ := workloadPeerCount(a); n != len(w.Workloads) {
		r.Violate("c17.count", "c17.count:unique-names:peer-count", fmt.Sprintf("%d workload peers", len(w.Workloads)), fmt.Sprintf("%d", n), "base expression")
	}
	hash := w.Hash()
	anyChanged := false
	for vi := 0; vi < 3; vi++ {
		v, desc, changed := reexpress(g, w, r)
		hash += "/" + desc
		anyChanged = anyChanged || changed
		dir := c.Dir(fmt.Sprintf("expr%d", vi))
		if err := v.Write(dir, c.R(fmt.Sprintf("l%d", vi+1))); err != nil {
			r.Discarded = err.Error()
			return
		}
		b := observe.List(dir, observe.ListOpts{})
		r.Ev("reexpressions", 1)
		if b.Panic != "" {
			r.Violate("c17.total", "c17.total:any:panic", "a result or an error", "panic: "+b.Panic, desc)
			return
		}
		if b.HasErr {
			r.Violate("c17.rel", "c17.rel:reexpress:error", "the same report up to [Kind]", "error: "+b.Err, desc)
			continue
		}
		n, set := workloadPeerCount(b)
		if n != len(v.Workloads) {
			r.Violate("c17.count", "c17.count:unique-names:peer-count", fmt.Sprintf("%d workload peers", len(v.Workloads)), fmt.Sprintf("%d", n), desc)
		}
		for i := range v.Workloads {
			if !set[v.Workloads[i].PeerString()] {
				r.Violate("c17.count", "c17.count:unique-names:peer-missing", "peer "+v.Workloads[i].PeerString(), "absent from the returned peers", desc)
			}
		}
		for _, e := range b.Entries {
			if e.Src == e.Dst {
				r.Violate("c17.self", "c17.self:any:self-connection", "no workload connects to itself", e.Src, desc)
			}
		}
		nv := 0
		np := forEachPoint(a, b, stripKind, func(p point) {
			if !p.A.Equal(p.B) {
				nv++
				if nv <= 2 {
					r.Violate("c17.rel", "c17.rel:reexpress:differs", "same connectivity up to the [Kind] suffix", p.A.String()+" vs "+p.B.String(), p.Src+" => "+p.Dst+" ; "+desc)
				}
			}
		})
		r.Ev("points_compared", int64(np))
	}
	r.Hash = hash
	r.Effective = anyChanged
	r.NonTrivial = anyChanged && partial
	if c.Idx%71 == 0 || len(r.Violations) > 0 {
		r.SetSample(map[string]interface{}{"base": shortWorld(w), "expressions": hash})
	}
}

// collision worlds: distinct workloads that the tool may key identically
func runC17Collision(c *run.Ctx, g *rng.R, cfg world.Cfg) {
	r := c.Res
	w := world.GenNPWorld(g, cfg)
	r.Ev("collision_worlds", 1)
	wl := &w.Workloads[0]
	wl.Kind = world.KDeployment
	twin := *wl
	twin.Labels = map[string]string{"app": "twin"}
	pattern := ""
	switch g.Intn(4) {
	case 3:
		// a bare Pod named exactly like a controller workload of its namespace: their pods (web, web-1) do NOT share a name, and
		// namespace/name[kind] tells the two workloads apart - both must be reported
		wl.Kind = rng.Pick(g, []string{world.KDeployment, world.KStatefulSet, world.KDaemonSet, world.KReplicaSet, world.KJob})
		twin.Kind = world.KPod
		pattern = "pod-named-like-controller"
	case 0:
		twin.Kind = rng.Pick(g, []string{world.KStatefulSet, world.KDaemonSet, world.KReplicaSet, world.KJob})
		pattern = "same-name-two-kinds"
	case 1:
		twin.Kind = world.KPod
		twin.Name = wl.Name + "-1"
		pattern = "pod-named-like-replica"
	default:
		// same name in another namespace: must NOT collide
		for _, ns := range world.NsNames {
			if ns != wl.Ns {
				twin.Ns = ns
				break
			}
		}
		if w.NsByName(twin.Ns) == nil {
			w.Namespaces = append(w.Namespaces, world.Namespace{Name: twin.Ns})
		}
		pattern = "same-name-two-namespaces"
	}
	w.Workloads = append(w.Workloads, twin)
	r.Feat(pattern)
	r.Ev("collision_"+pattern, 1)
	r.Hash = w.Hash()
	dir := c.Dir("input")
	if err := w.Write(dir, c.R("l0")); err != nil {
		r.Discarded = err.Error()
		return
	}
	res := observe.List(dir, observe.ListOpts{})
	if res.Panic != "" {
		r.Violate("c17.total", "c17.total:any:panic", "a result or an error", "panic: "+res.Panic, "")
		return
	}
	if res.HasErr {
		r.Ev("collision_errors", 1)
		return
	}
	r.Effective, r.NonTrivial = true, true
	_, set := workloadPeerCount(res)
	for i := range w.Workloads {
		if !set[w.Workloads[i].PeerString()] {
			r.Violate("c17.count", "c17.count:"+pattern+":peer-missing", "peer "+w.Workloads[i].PeerString()+" (every workload is represented by exactly one peer)",
				"absent from the returned peers", pattern)
		}
	}
	if len(r.Violations) > 0 || c.Idx%70 == 9 {
		s := sampleOf(w, res, 6)
		s["pattern"] = pattern
		r.SetSample(s)
	}
}

// committed witnesses of known / fixed findings, replayed at the head of every case list
var c17Witnesses = []string{"C17-kind-shadow", "C17-pod-replica-name"}

func runC17Witness(c *run.Ctx, fid string) {
	r := c.Res
	r.Name = "witness " + fid
	base := filepath.Join(c.Root, "findings", fid)
	var exp struct {
		Peers   []string `json:"peers"`
		Pattern string   `json:"pattern"`
	}
	b, err := os.ReadFile(filepath.Join(base, "expect.json"))
	if err != nil || json.Unmarshal(b, &exp) != nil {
		r.Inconclusive = "witness " + fid + " unreadable"
		return
	}
	res := observe.List(filepath.Join(base, "input"), observe.ListOpts{})
	if res.Panic != "" || res.HasErr {
		r.Violate("c17.count", "c17.count:"+exp.Pattern+":error", "a report", res.Panic+res.Err, fid)
		return
	}
	r.Ev("witness_replays", 1)
	_, set := workloadPeerCount(res)
	for _, p := range exp.Peers {
		if !set[p] {
			r.Violate("c17.count", "c17.count:"+exp.Pattern+":peer-missing", "peer "+p+" (every workload is represented by exactly one peer)", "absent from the returned peers", fid)
		}
	}
}
