package checks

import (
	"fmt"
	"os"
	"path/filepath"
	"strings"

	"verif/harness/internal/observe"
	"verif/harness/internal/rng"
	"verif/harness/internal/run"
	"verif/harness/internal/world"
)

func init() {
	run.Register(&run.Check{
		ID:    "C18",
		Level: "exploration",
		Rule: "cases: a directory (the repository's own manifest directories; generated valid NetworkPolicy / ANP / Ingress worlds; worlds with a malformed document; with a fatal duplicate-policy conflict; with nothing analysable) and a random flag combination (-o txt|json|csv|md|dot, --exposure, --focusworkload present/absent/shared, --fail, -q/-v, -f FILE) for list, or (-o txt|csv|md|dot, --fail, -f) for diff against an edited second directory; " +
			"the binary built from cmd/netpolicy is run as a child process and compared byte-for-byte with the in-process library call made with the same options: stdout = returned string, -f file = stdout, exit status != 0 <=> library returned an error; ConnlistFromResourceInfos(scan(dir)) must return the same connections as ConnlistFromDirPath; " +
			"non-trivial = the compared output is non-empty and at least one non-default flag is set; distinct = world hash + flags",
		Assumptions:       []string{"C08 (run-to-run determinism) for comparing two separate executions", "log output goes to stderr and is not part of the comparison"},
		NumCases:          func(tier string, _ int64) int { return tierN(tier, 480, 12000) },
		Run:               runC18,
		NeedsBinary:       true,
		MinNonTrivial:     100,
		MinEffectiveShare: 0.4,
		RequiredEvents: map[string]int64{"binary_runs": 400, "stdout_bytes_compared": 50000, "outfile_compared": 50, "outfile_preexisting": 20, "error_exit_cases": 30, "list_invocations": 200, "diff_invocations": 80,
			"flag_exposure": 30, "flag_focusworkload": 30, "flag_fail": 30, "infos_vs_dirpath_compared": 100, "infos_vs_dirpath_compared_with_stop_on_error": 20, "fixture_invocations": 40},
	})
}

func c18World(g *rng.R, class string) *world.World {
	cfg := world.DefaultCfg()
	cfg.DottedNames = 0.25
	cfg.NamedEgressIP = 0.02
	cfg.MaxWorkloads = 5
	switch class {
	case "anp":
		return world.GenPrecedenceWorld(g, cfg)
	case "ingress":
		w := world.GenNPWorld(g, cfg)
		world.GenIngressResources(g, w)
		return w
	}
	return world.GenNPWorld(g, cfg)
}

func runC18(c *run.Ctx) {
	r := c.Res
	g := c.R("world")
	class := rng.Pick(g, []string{"np", "np", "anp", "ingress", "ingress", "severe", "fatal", "nothing", "fixture", "fixture"})
	var w *world.World
	if class == "severe" || class == "fatal" || class == "nothing" {
		w = c18World(g, "np")
	} else {
		w = c18World(g, class)
	}
	r.Feat("class_" + class)
	dir := c.Dir("input")
	fixtureNames := []string{}
	if class == "fixture" {
		// one of the repository's own manifest directories (never the slow ipblockstest_4)
		dir = fixtureAt(c.Repo, "quick", g.Intn(70))
		r.Ev("fixture_invocations", 1)
		probe := observe.List(dir, observe.ListOpts{})
		for _, p := range probe.Peers {
			if !p.IsIP {
				fixtureNames = append(fixtureNames, p.Name, p.Ns+"/"+p.Name)
			}
		}
	} else if class == "nothing" {
		_ = os.MkdirAll(dir, 0o755)
		if g.P(0.5) {
			_ = os.WriteFile(filepath.Join(dir, "cm.yaml"), []byte(junkDocs["configmap"]), 0o644)
		}
	} else if err := w.Write(dir, c.R("layout")); err != nil {
		r.Discarded = err.Error()
		return
	}
	switch class {
	case "severe":
		_ = os.WriteFile(filepath.Join(dir, "zz-bad.yaml"), []byte(rng.Pick(g, []string{junkDocs["badnetpol"], junkFiles["syntax"], junkDocs["baddeploy"]})), 0o644)
	case "fatal":
		np := world.GenNetPol(g, w, world.DefaultCfg(), w.Workloads[0].Ns, "dup")
		_ = os.WriteFile(filepath.Join(dir, "dup1.yaml"), []byte(world.NetPolYAML(&np)), 0o644)
		_ = os.WriteFile(filepath.Join(dir, "dup2.yaml"), []byte(world.NetPolYAML(&np)), 0o644)
	}
	isDiff := c.Idx%3 == 2
	flags := []string{}
	nondefault := 0
	fail := g.P(0.25)
	pExp := 0.35
	if class == "severe" || class == "fatal" { // where stop-on-error matters, combine it with every other flag more often
		fail = g.P(0.6)
		pExp = 0.5
	}
	verb := rng.Pick(g, []string{"", "", "-q", "-v"})
	outFile := ""
	if g.P(0.35) {
		outFile = filepath.Join(c.Dir("out"), "result.out")
		if g.P(0.5) { // the file may exist already, with more bytes than the new report
			_ = os.WriteFile(outFile, []byte(strings.Repeat("stale content of an earlier run\n", 4000)), 0o644)
			r.Ev("outfile_preexisting", 1)
		}
	}
	if !isDiff {
		r.Ev("list_invocations", 1)
		format := rng.Pick(g, []string{"txt", "json", "csv", "md", "dot", "", "txt", "json", "csv", "md", "dot", "", "xml"}) // "xml": not a format - an error on both sides
		format = formatSpelling(c, r, format)
		opts := observe.ListOpts{Format: format, StopOnError: fail}
		args := []string{"list", "--dirpath", dir}
		if format != "" {
			args = append(args, "-o", format)
			nondefault++
		} else {
			opts.Format = "txt"
		}
		if g.P(pExp) {
			opts.Exposure = true
			args = append(args, "--exposure")
			r.Ev("flag_exposure", 1)
			nondefault++
		}
		pFocus := 0.35
		dotted := -1
		for i := range w.Workloads {
			if strings.Contains(w.Workloads[i].Name, ".") {
				dotted, pFocus = i, 0.7
			}
		}
		if g.P(pFocus) && len(w.Workloads) > 0 {
			wl := rng.Pick(g, w.Workloads)
			if dotted >= 0 && g.P(0.7) { // a dotted (DNS-subdomain) workload name is a valid focus argument
				wl = w.Workloads[dotted]
			}
			opts.Focus = rng.Pick(g, []string{wl.Name, wl.Ns + "/" + wl.Name, "nosuch", "ingress-controller"})
			if len(fixtureNames) > 0 {
				opts.Focus = rng.Pick(g, append(fixtureNames, "nosuch"))
			}
			args = append(args, "--focusworkload", opts.Focus)
			r.Ev("flag_focusworkload", 1)
			nondefault++
		}
		if fail {
			args = append(args, "--fail")
			r.Ev("flag_fail", 1)
			nondefault++
		}
		if verb != "" {
			args = append(args, verb)
		}
		if outFile != "" {
			args = append(args, "-f", outFile)
			nondefault++
		}
		flags = args[3:]
		lib := observe.List(dir, opts)
		cli := observe.RunCLI(c.Bin, c.Scratch(), args...)
		r.Ev("binary_runs", 1)
		compareCLI(r, "list", strings.Join(flags, " "), lib.Panic, lib.HasErr || lib.OutErr != "", lib.Err+lib.OutErr, lib.Output, cli, outFile)
		r.Effective = lib.Output != ""
		r.NonTrivial = lib.Output != "" && nondefault > 0
		// resource-info API vs directory API: same connections
		{
			a := observe.List(dir, observe.ListOpts{Exposure: opts.Exposure, Focus: opts.Focus, StopOnError: fail})
			b := observe.List(dir, observe.ListOpts{Exposure: opts.Exposure, Focus: opts.Focus, StopOnError: fail, ViaInfos: true})
			// with stop-on-error the two routes are comparable only when the scan itself reported nothing (scan errors never reach
			// the analyzer on the resource-info route, and the directory route stops on them)
			if a.Panic == "" && b.Panic == "" && (!fail || b.ScanErrs == 0) {
				r.Ev("infos_vs_dirpath_compared", 1)
				shape := "differs"
				if fail {
					shape = "differs-with-stop-on-error"
					r.Ev("infos_vs_dirpath_compared_with_stop_on_error", 1)
				}
				if ok, d := relationsEqual(a, b); !ok {
					r.Violate("c18.infos", "c18.infos:"+class+":"+shape, "ConnlistFromResourceInfos(scan(dir)) returns the connections of ConnlistFromDirPath(dir)", d, strings.Join(flags, " "))
				} else if fail && a.HasErr != b.HasErr {
					r.Violate("c18.infos", "c18.infos:"+class+":error-state-differs-with-stop-on-error", "both routes return an error, or neither", fmt.Sprintf("dir route error=%v (%s), resource-info route error=%v (%s)", a.HasErr, a.Err, b.HasErr, b.Err), strings.Join(flags, " "))
				}
			}
		}
	} else {
		r.Ev("diff_invocations", 1)
		w2 := w
		cfg := world.DefaultCfg()
		cfg.NamedEgressIP = 0
		for n := g.Range(1, 2); n > 0; n-- {
			if nw, _ := world.Mutate(g, w2, cfg); nw != nil {
				w2 = nw
			}
		}
		dir2 := c.Dir("input2")
		if class == "fixture" {
			dir2 = fixtureAt(c.Repo, "quick", g.Intn(70))
		} else if err := w2.Write(dir2, c.R("layout2")); err != nil {
			r.Discarded = err.Error()
			return
		}
		format := rng.Pick(g, []string{"txt", "csv", "md", "dot", "", "txt", "csv", "md", "dot", "", "json"}) // diff has no json format
		format = formatSpelling(c, r, format)
		opts := observe.DiffOpts{Format: format, StopOnError: fail, Names: [2]string{"dir1", "dir2"}}
		d1, d2 := dir, dir2
		if g.P(0.5) {
			d1, d2 = dir2, dir
		}
		pSame := 0.12
		if class == "fatal" || class == "severe" { // where the directory's own errors decide the exit status
			pSame = 0.4
		}
		if gs := c.R("samedir"); gs.P(pSame) {
			// a directory diffed against itself (same path, or spelled with a trailing separator): an empty diff - or the directory's
			// own errors - on both sides
			d2 = d1
			if gs.P(0.5) {
				d2 = d1 + string(filepath.Separator)
			}
			r.Ev("diff_of_a_directory_with_itself", 1)
		}
		args := []string{"diff", "--dir1", d1, "--dir2", d2}
		if format != "" {
			args = append(args, "-o", format)
			nondefault++
		} else {
			opts.Format = "txt"
		}
		if fail {
			args = append(args, "--fail")
			r.Ev("flag_fail", 1)
			nondefault++
		}
		if verb != "" {
			args = append(args, verb)
		}
		if outFile != "" {
			args = append(args, "-f", outFile)
			nondefault++
		}
		flags = args[5:]
		lib := observe.Diff(d1, d2, opts)
		cli := observe.RunCLI(c.Bin, c.Scratch(), args...)
		r.Ev("binary_runs", 1)
		compareCLI(r, "diff", strings.Join(flags, " "), lib.Panic, lib.HasErr || lib.OutErr != "", lib.Err+lib.OutErr, lib.Output, cli, outFile)
		r.Effective = lib.Output != ""
		r.NonTrivial = lib.Output != "" && nondefault > 0
	}
	r.Hash = w.Hash() + "/" + class + "/" + strings.Join(flags, " ") + fmt.Sprint(isDiff)
	if c.Idx%37 == 0 || len(r.Violations) > 0 {
		cmd := "list"
		if isDiff {
			cmd = "diff"
		}
		r.SetSample(map[string]interface{}{"command": "k8snetpolicy " + cmd + " <dir(s)> " + strings.Join(flags, " "), "input_class": class,
			"compared": "stdout of the child process vs string returned by the library, -f file vs stdout, exit status vs returned error"})
	}
}

func compareCLI(r *run.CaseResult, cmd, flags, libPanic string, libErr bool, libErrText, libOut string, cli *observe.CLIResult, outFile string) {
	mon := "c18." + cmd
	if libPanic != "" {
		r.Violate("c18.total", "c18.total:any:panic", "a result or an error", "panic: "+libPanic, flags)
		return
	}
	if cli.StartErr != "" || cli.TimedOut {
		r.Inconclusive = "binary did not run: " + cli.StartErr
		return
	}
	if strings.Contains(cli.Stderr, "panic:") || strings.Contains(cli.Stderr, "goroutine ") {
		r.Violate("c18.total", "c18.total:any:binary-panic", "a result or an error", "binary crashed: "+cli.Stderr, flags)
		return
	}
	if libErr {
		r.Ev("error_exit_cases", 1)
		if cli.Exit == 0 {
			r.Violate(mon, mon+":exit:zero-on-error", "non-zero exit status (library returned: "+libErrText+")", "exit 0", flags)
		}
		return
	}
	if cli.Exit != 0 {
		r.Violate(mon, mon+":exit:nonzero-without-error", "exit 0 (library returned no error)", fmt.Sprintf("exit %d, stderr: %s", cli.Exit, cli.Stderr), flags)
		return
	}
	r.Ev("stdout_bytes_compared", int64(len(libOut)))
	if cli.Stdout != libOut {
		r.Violate(mon, mon+":stdout:differs", "stdout identical to the string returned by the library", firstDiffText(libOut, cli.Stdout), flags)
	}
	if outFile != "" {
		b, err := os.ReadFile(outFile)
		r.Ev("outfile_compared", 1)
		if err != nil {
			r.Violate(mon, mon+":outfile:missing", "-f FILE written", "file absent: "+err.Error(), flags)
		} else if string(b) != cli.Stdout {
			r.Violate(mon, mon+":outfile:differs", "-f FILE holds the bytes of stdout", firstDiffText(cli.Stdout, string(b)), flags)
		}
	}
}

func firstDiffText(a, b string) string {
	i := 0
	for i < len(a) && i < len(b) && a[i] == b[i] {
		i++
	}
	lo := i - 60
	if lo < 0 {
		lo = 0
	}
	ha, hb := i+80, i+80
	if ha > len(a) {
		ha = len(a)
	}
	if hb > len(b) {
		hb = len(b)
	}
	return fmt.Sprintf("first difference at byte %d (lengths %d/%d): expected …%q… got …%q…", i, len(a), len(b), a[lo:ha], b[lo:hb])
}

// formatSpelling sometimes re-spells a format name with upper-case letters (JSON, Csv, Md): whatever the tool makes of such a
// name - an unknown format, or the format it resembles - the command line and the library must make the same of it. The draw
// comes from a stream of its own, so that the rest of the case is what it was before this was added.
func formatSpelling(c *run.Ctx, r *run.CaseResult, format string) string {
	g := c.R("formatspelling")
	if format == "" || !g.P(0.15) {
		return format
	}
	r.Ev("format_names_with_capitals", 1)
	switch g.Intn(3) {
	case 0:
		return strings.ToUpper(format)
	case 1:
		return strings.ToUpper(format[:1]) + format[1:]
	}
	return format[:len(format)-1] + strings.ToUpper(format[len(format)-1:])
}
