package checks

import (
	"fmt"
	"os"
	"path/filepath"
	"strings"

	"verif/harness/internal/observe"
	"verif/harness/internal/rng"
	"verif/harness/internal/run"
	"verif/harness/internal/world"
)

var c19Kinds = []string{"anp-same-priority", "anp-priority-out-of-range", "anp-same-name", "np-same-name", "two-banp", "banp-not-default", "owner-label-mismatch"}
var c19Sizes = []int{0, 1, 2, 3, 5, 8, 11, 12, 13, 20, 31, 64, 200}
var c19Positions = []string{"first", "last", "adjacent", "far-apart", "median"}
var c19Routes = []string{"list", "diff-dir1", "diff-dir2"}

func c19Cells() int { return len(c19Kinds) * len(c19Sizes) * len(c19Positions) * len(c19Routes) }

func init() {
	run.Register(&run.Check{
		ID:    "C19",
		Level: "fault_enumeration",
		Rule: "fault enumeration: conflict kind (7: equal ANP priorities, ANP priority outside 0..1000, duplicate ANP name, duplicate NetworkPolicy name in one namespace, two BANPs, BANP not named default, pods of one owner with different labels - every way two label sets can differ, including a label controllers set per pod; one to three equal replicas before the odd one -) x number of other admin policies {0,1,2,3,5,8,11,12,13,20,31,64,200} x position of the conflicting documents {first,last,adjacent,far apart,median} x route {list, diff with the conflict in dir1, in dir2}, file placement random; 12% of the cells hold policies only (no workload at all: nothing to report, but a conflict all the same); the conflicting admin policy has rules in one direction, in both, or no rule at all; a third of the duplicate-name / two-BANP conflicts are the very same document twice; fillers include rule-less policies and the legal boundary priorities 0 and 1000; in 30% of the cells a stray non-manifest / malformed file (a severe, recoverable error) is read before or after the conflict, in the twin too; " +
			"each cell is run with the conflict (expected: error returned, no connections, a fatal entry in Errors(), message naming the conflict) and as a conflict-free twin (expected: clean analysis), so an oracle that fires on everything is caught; " +
			"non-trivial = the conflict-free twin analysed cleanly with a non-empty report; distinct = cell + filler hash",
		Assumptions:       []string{"'naming the conflict' = the message contains one of the conflicting resource names, the offending priority value, or the words baseline/default for the BANP kinds", "exposure mode is out of scope (it rejects every ANP)"},
		NumCases:          func(tier string, _ int64) int { return tierN(tier, c19Cells(), c19Cells()*12) },
		Run:               runC19,
		MinNonTrivial:     500,
		MinEffectiveShare: 0.8,
		RequiredEvents:    map[string]int64{"conflict_runs": 1000, "twin_runs_clean": 1000, "rejected_with_identifying_message": 1000, "cells_n_ge_12": 300, "conflicting_anp_without_rules": 50, "cells_with_a_severe_error_next_to_the_conflict": 100, "conflict_is_an_identical_copy": 50},
	})
}

func fillerANP(g *rng.R, w *world.World, i, pri int) world.ANP {
	a := world.ANP{Name: fmt.Sprintf("fill%d", i), Priority: pri, Subject: world.GenSubject(g, w)}
	rule := world.ANPRule{Name: "r", Action: rng.Pick(g, []string{"Allow", "Deny", "Pass"}), Peers: []world.Subject{world.GenSubject(g, w)}}
	rule.Ports, rule.HasPorts = world.GenANPPorts(g, world.DefaultCfg())
	if g.P(0.5) {
		a.Ingress = []world.ANPRule{rule}
	} else {
		a.Egress = []world.ANPRule{rule}
	}
	return a
}

// placeDocs inserts the conflicting documents (1 or 2) among the others at the requested position.
func placeDocs(g *rng.R, others, conflict []world.Doc, pos string) []world.Doc {
	n := len(others)
	ins := func(docs []world.Doc, at int, d world.Doc) []world.Doc {
		if at > len(docs) {
			at = len(docs)
		}
		out := append([]world.Doc{}, docs[:at]...)
		out = append(out, d)
		return append(out, docs[at:]...)
	}
	switch pos {
	case "first":
		return append(append([]world.Doc{}, conflict...), others...)
	case "last":
		return append(append([]world.Doc{}, others...), conflict...)
	case "adjacent":
		at := g.Intn(n + 1)
		out := others
		for i, d := range conflict {
			out = ins(out, at+i, d)
		}
		return out
	case "far-apart":
		// all conflicting documents but the last one at the start, the last one at the end
		out := others
		for i, d := range conflict[:maxInt(1, len(conflict)-1)] {
			out = ins(out, i, d)
		}
		if len(conflict) > 1 {
			out = append(out, conflict[len(conflict)-1])
		}
		return out
	default: // median
		out := others
		for i, d := range conflict[:maxInt(1, len(conflict)-1)] {
			out = ins(out, n/2+i, d)
		}
		if len(conflict) > 1 {
			out = ins(out, g.Intn(len(out)+1), conflict[len(conflict)-1])
		}
		return out
	}
}

func maxInt(a, b int) int {
	if a > b {
		return a
	}
	return b
}

func runC19(c *run.Ctx) {
	r := c.Res
	cell := c.Idx % c19Cells()
	kind := c19Kinds[cell%len(c19Kinds)]
	cell /= len(c19Kinds)
	n := c19Sizes[cell%len(c19Sizes)]
	cell /= len(c19Sizes)
	pos := c19Positions[cell%len(c19Positions)]
	cell /= len(c19Positions)
	route := c19Routes[cell%len(c19Routes)]
	g := c.R("world")
	cfg := world.DefaultCfg()
	cfg.NamedEgressIP = 0
	cfg.MaxWorkloads = 4
	cfg.MaxNetPols = 2
	cfg.Kinds = []string{world.KDeployment, world.KOwnedPods}
	w := world.GenNPWorld(g, cfg)
	// filler admin policies with distinct priorities
	pris := make([]int, 1001)
	for i := range pris {
		pris[i] = i
	}
	rng.Shuffle(g, pris)
	// the legal boundary priorities 0 and 1000 among the fillers (the conflict-free twin must accept them)
	for slot, want := range []int{0, 1000} {
		if slot < n && g.P(0.3) {
			for j := range pris {
				if pris[j] == want {
					pris[slot], pris[j] = pris[j], pris[slot]
				}
			}
			r.Ev("twin_with_boundary_priority", 1)
		}
	}
	for i := 0; i < n; i++ {
		f := fillerANP(g, w, i, pris[i])
		if g.P(0.1) { // a policy without any rule is legal
			f.Ingress, f.Egress = nil, nil
		}
		w.ANPs = append(w.ANPs, f)
	}
	if g.P(0.3) && kind != "two-banp" && kind != "banp-not-default" {
		w.BANP = &world.BANP{Name: "default", Subject: world.GenSubject(g, w)}
	}
	tag := fmt.Sprintf("%s/n=%d/%s/%s", kind, n, pos, route)
	r.Name = tag
	r.Feat("kind_"+kind, "route_"+route, "pos_"+pos)
	if n >= 12 {
		r.Ev("cells_n_ge_12", 1)
	}
	// conflicting documents
	var conflict []world.Doc
	tokens := []string{}
	anpDoc := func(a world.ANP) world.Doc {
		// shape of the conflicting policy: as drawn (one direction), no rule at all, or both directions - a conflict is a conflict
		// whatever the policy would do
		switch g.Intn(4) {
		case 0:
			a.Ingress, a.Egress = nil, nil
			r.Ev("conflicting_anp_without_rules", 1)
		case 1:
			b := fillerANP(g, w, 9100, 0)
			a.Ingress, a.Egress = append(a.Ingress, b.Ingress...), append(a.Egress, b.Egress...)
		}
		return world.Doc{Kind: "AdminNetworkPolicy", Name: a.Name, YAML: world.ANPYAML(&a)}
	}
	switch kind {
	case "anp-same-priority":
		p := pris[n]
		if n > 0 && g.P(0.6) { // collide with an existing filler
			p = w.ANPs[g.Intn(n)].Priority
			a := fillerANP(g, w, 9000, p)
			a.Name = "conflict-a"
			conflict = []world.Doc{anpDoc(a)}
			for _, f := range w.ANPs {
				if f.Priority == p {
					tokens = append(tokens, f.Name)
				}
			}
			tokens = append(tokens, "conflict-a")
		} else {
			a, b := fillerANP(g, w, 9000, p), fillerANP(g, w, 9001, p)
			a.Name, b.Name = "conflict-a", "conflict-b"
			conflict = []world.Doc{anpDoc(a), anpDoc(b)}
			tokens = []string{"conflict-a", "conflict-b"}
		}
	case "anp-priority-out-of-range":
		p := rng.Pick(g, []int{1001, -1, 5000, 1002, -1000})
		a := fillerANP(g, w, 9000, p)
		a.Name = "conflict-a"
		conflict = []world.Doc{anpDoc(a)}
		tokens = []string{"conflict-a", fmt.Sprint(p)}
	case "anp-same-name":
		a, b := fillerANP(g, w, 9000, pris[n]), fillerANP(g, w, 9001, pris[n+1])
		a.Name, b.Name = "conflict-a", "conflict-a"
		if g.P(0.3) { // identical copies (same priority too): the name conflict is reported whichever check fires first
			b = a
			r.Ev("conflict_is_an_identical_copy", 1)
			tokens = append(tokens, "conflict-a")
		}
		if n > 0 && g.P(0.5) {
			a.Name = w.ANPs[g.Intn(n)].Name
			conflict = []world.Doc{anpDoc(a)}
			tokens = []string{a.Name}
		} else {
			conflict = []world.Doc{anpDoc(a), anpDoc(b)}
			tokens = []string{"conflict-a"}
		}
	case "np-same-name":
		ns := w.Workloads[0].Ns
		a, b := world.GenNetPol(g, w, cfg, ns, "conflict-np"), world.GenNetPol(g, w, cfg, ns, "conflict-np")
		if g.P(0.35) {
			b = a
			r.Ev("conflict_is_an_identical_copy", 1)
		}
		conflict = []world.Doc{{Kind: "NetworkPolicy", YAML: world.NetPolYAML(&a)}, {Kind: "NetworkPolicy", YAML: world.NetPolYAML(&b)}}
		tokens = []string{"conflict-np"}
	case "two-banp":
		a := world.BANP{Name: "default", Subject: world.GenSubject(g, w)}
		b := world.BANP{Name: "default", Subject: world.GenSubject(g, w)}
		if g.P(0.35) { // the very same document twice is still two baseline policies
			b = a
			r.Ev("conflict_is_an_identical_copy", 1)
		}
		conflict = []world.Doc{{Kind: "BANP", YAML: world.BANPYAML(&a)}, {Kind: "BANP", YAML: world.BANPYAML(&b)}}
		tokens = []string{"baseline", "default"}
	case "banp-not-default":
		a := world.BANP{Name: rng.Pick(g, []string{"Default", "baseline", "default2", "x"}), Subject: world.GenSubject(g, w)}
		conflict = []world.Doc{{Kind: "BANP", YAML: world.BANPYAML(&a)}}
		tokens = []string{"baseline", "default"}
	case "owner-label-mismatch":
		ns := w.Workloads[0].Ns
		p1 := world.Workload{Ns: ns, Name: "conflict-owner", Kind: world.KOwnedPods, NPods: 1, Labels: map[string]string{"app": "a"}}
		p2 := p1
		// every way two label sets can differ: other value, extra key, missing key, empty value vs missing key, empty vs non-empty value
		switch g.Intn(7) {
		case 6: // only a label that a controller sets per pod differs
			k := rng.Pick(g, []string{"statefulset.kubernetes.io/pod-name", "apps.kubernetes.io/pod-index", "batch.kubernetes.io/job-completion-index", "controller-revision-hash", "pod-template-hash"})
			p1.Labels = map[string]string{"app": "a", k: "conflict-owner-0"}
			p2.Labels = map[string]string{"app": "a", k: "conflict-owner-1"}
		case 0:
			p2.Labels = map[string]string{"app": "b"}
		case 1:
			p2.Labels = map[string]string{"app": "a", "tier": "c"}
		case 2:
			p1.Labels = map[string]string{"app": "a", "tier": "c"}
			p2.Labels = map[string]string{"app": "a"}
		case 3:
			p2.Labels = map[string]string{"app": "a", "canary": ""}
		case 4:
			p1.Labels = map[string]string{"app": "a", "canary": ""}
			p2.Labels = map[string]string{"app": "a"}
		default:
			p1.Labels = map[string]string{"app": ""}
			p2.Labels = map[string]string{"app": "a"}
		}
		r.Ev("owner_label_difference_shapes", 1)
		if g.P(0.4) { // the owner itself is in the input (a ReplicaSet / StatefulSet manifest) next to a dumped Pod it owns, with other labels
			p1.Kind = rng.Pick(g, []string{world.KReplicaSet, world.KStatefulSet})
			p1.NPods = 0
			p2.OwnerKind = p1.Kind
			r.Ev("owner_manifest_next_to_an_owned_pod", 1)
		}
		extra := 0
		if p1.NPods > 0 && g.P(0.4) { // one or two more replicas with the first pod's labels stand before the odd one
			extra = 1 + g.Intn(2)
			p1.NPods += extra
			r.Ev("owner_label_mismatch_after_several_equal_replicas", 1)
		}
		if ge := c.R("extraowners"); ge.P(0.35) {
			// further, non-controller ownerReferences around the controller's (before it, after it) on one or both pods: the pods still
			// belong to one owner
			p2.ExtraOwners = rng.Pick(ge, []string{"before-false", "after-false", "before-omitted", "both-false"})
			if p1.Kind == world.KOwnedPods && ge.P(0.4) {
				p1.ExtraOwners = rng.Pick(ge, []string{"before-false", "after-false", "before-omitted"})
			}
			r.Ev("owner_label_mismatch_with_extra_owner_references", 1)
		}
		d1 := (&world.World{Workloads: []world.Workload{p1}}).Docs()
		d2 := (&world.World{Workloads: []world.Workload{p2}}).Docs()[0]
		d2.YAML = strings.Replace(d2.YAML, "conflict-owner-x0", "conflict-owner-x9", 1)
		conflict = append(append([]world.Doc{}, d1[:1+extra]...), d2)
		tokens = []string{"conflict-owner"}
	}
	// documents: the admin policies (where position matters) in one ordered block, the rest around them
	all := w.Docs()
	var admin, rest []world.Doc
	for _, d := range all {
		if d.Kind == "AdminNetworkPolicy" {
			admin = append(admin, d)
		} else {
			rest = append(rest, d)
		}
	}
	rng.Shuffle(g, admin)
	// policies only: an input without any workload has nothing to report, but a conflict among its policies is a conflict all the same
	policiesOnly := kind != "owner-label-mismatch" && g.P(0.12)
	if policiesOnly {
		kept := []world.Doc{}
		for _, d := range rest {
			if d.Kind == "Namespace" || d.Kind == "NetworkPolicy" || d.Kind == "BaselineAdminNetworkPolicy" || d.Kind == "BANP" || d.Kind == "Service" {
				kept = append(kept, d)
			}
		}
		rest = kept
		r.Ev("cells_without_any_workload", 1)
		r.Feat("policies_only")
	}
	var withConflict []world.Doc
	if kind == "np-same-name" || kind == "owner-label-mismatch" || kind == "two-banp" || kind == "banp-not-default" {
		rng.Shuffle(g, rest)
		withConflict = append(placeDocs(g, rest, conflict, pos), admin...)
	} else {
		withConflict = append(append([]world.Doc{}, rest...), placeDocs(g, admin, conflict, pos)...)
	}
	twinDocs := append(append([]world.Doc{}, rest...), admin...)
	layout := rng.Pick(g, []string{world.LayoutCanonial, world.LayoutCanonial, world.LayoutPerDoc})
	bad, twin := c.Dir("conflict"), c.Dir("twin")
	var lr *rng.R
	if layout == world.LayoutPerDoc {
		// per-document files named in order so that the directory walk keeps the chosen positions
		lr = nil
	}
	_ = lr
	if err := world.WriteDocs(bad, withConflict, layout, nil); err != nil {
		r.Discarded = err.Error()
		return
	}
	if err := world.WriteDocs(twin, twinDocs, layout, nil); err != nil {
		r.Discarded = err.Error()
		return
	}
	// a recoverable (severe, not fatal) error next to the conflict - a stray file that is no manifest, read before or after the
	// conflicting documents - must not let the conflict through; the twin carries the same file and must still analyse
	if g.P(0.3) {
		name := rng.Pick(g, []string{"0-stray-values.yaml", "zz-stray-values.yaml"})
		body := rng.Pick(g, []string{"replicaCount: 1\nimage:\n  tag: latest\n", junkFiles["syntax"], junkDocs["badnetpol"]})
		_ = os.WriteFile(filepath.Join(bad, name), []byte(body), 0o644)
		_ = os.WriteFile(filepath.Join(twin, name), []byte(body), 0o644)
		r.Ev("cells_with_a_severe_error_next_to_the_conflict", 1)
		r.Feat("stray_severe_file")
	}
	r.Hash = tag + "/" + w.Hash()
	identify := func(msg string) bool {
		lm := strings.ToLower(msg)
		for _, t := range tokens {
			if strings.Contains(lm, strings.ToLower(t)) {
				return true
			}
		}
		return false
	}
	switch route {
	case "list":
		t := observe.List(twin, observe.ListOpts{})
		b := observe.List(bad, observe.ListOpts{})
		if t.Panic != "" || b.Panic != "" {
			r.Violate("c19.total", "c19.total:any:panic", "a result or an error", "panic: "+t.Panic+b.Panic, tag)
			return
		}
		r.Ev("conflict_runs", 1)
		if (t.HasErr || t.HasFatal()) && !policiesOnly { // a twin without workloads may be refused for that reason; nothing is asked of it
			r.Violate("c19.twin", "c19.twin:"+kind+":twin-rejected", "the conflict-free twin analyses cleanly", "error: "+t.Err, tag)
			return
		}
		r.Ev("twin_runs_clean", 1)
		r.Effective = true
		r.NonTrivial = len(t.Entries) > 0
		if !b.HasErr {
			r.Violate("c19.reject", "c19.reject:"+kind+":accepted", "an error naming the conflict", fmt.Sprintf("no error, %d connections reported", len(b.Entries)), tag)
			return
		}
		if len(b.Entries) > 0 {
			r.Violate("c19.reject", "c19.reject:"+kind+":report-with-error", "no connections", fmt.Sprintf("%d connections next to the error", len(b.Entries)), tag)
		}
		if !b.HasFatal() {
			r.Violate("c19.reject", "c19.reject:"+kind+":no-fatal-entry", "a fatal entry in Errors()", fmt.Sprintf("%d entries, none fatal", len(b.Errs)), tag)
		}
		if !identify(b.Err) {
			r.Violate("c19.reject", "c19.reject:"+kind+":message", "a message naming the conflict (one of "+strings.Join(tokens, ", ")+")", b.Err, tag)
		} else {
			r.Ev("rejected_with_identifying_message", 1)
		}
		if c.Idx%211 == 0 {
			r.SetSample(map[string]interface{}{"cell": tag, "error": b.Err, "conflicting_documents": conflict, "twin_entries": len(t.Entries)})
		}
	default:
		d1, d2 := bad, twin
		if route == "diff-dir2" {
			d1, d2 = twin, bad
		}
		t := observe.Diff(twin, twin, observe.DiffOpts{})
		b := observe.Diff(d1, d2, observe.DiffOpts{})
		if t.Panic != "" || b.Panic != "" {
			r.Violate("c19.total", "c19.total:any:panic", "a result or an error", "panic: "+t.Panic+b.Panic, tag)
			return
		}
		r.Ev("conflict_runs", 1)
		if t.HasErr && !policiesOnly {
			r.Violate("c19.twin", "c19.twin:"+kind+":twin-rejected", "the conflict-free twin analyses cleanly", "error: "+t.Err, tag)
			return
		}
		r.Ev("twin_runs_clean", 1)
		r.Effective = true
		r.NonTrivial = len(t.Entries) > 0
		if !b.HasErr {
			r.Violate("c19.reject", "c19.reject:"+kind+":accepted", "an error naming the conflict", fmt.Sprintf("no error, %d diff entries", len(b.Entries)), tag)
			return
		}
		if len(b.Entries) > 0 {
			r.Violate("c19.reject", "c19.reject:"+kind+":report-with-error", "no diff", fmt.Sprintf("%d entries next to the error", len(b.Entries)), tag)
		}
		fatal := false
		for _, e := range b.Errs {
			if e.Fatal {
				fatal = true
			}
		}
		if !fatal {
			r.Violate("c19.reject", "c19.reject:"+kind+":no-fatal-entry", "a fatal entry in Errors()", fmt.Sprintf("%d entries, none fatal", len(b.Errs)), tag)
		}
		if !identify(b.Err) {
			r.Violate("c19.reject", "c19.reject:"+kind+":message", "a message naming the conflict (one of "+strings.Join(tokens, ", ")+")", b.Err, tag)
		} else {
			r.Ev("rejected_with_identifying_message", 1)
		}
	}
}
