// Package checks holds one oracle + workload per property.
package checks

import (
	"fmt"
	"sort"
	"strings"

	"verif/harness/internal/observe"
	"verif/harness/internal/refmodel"
	"verif/harness/internal/run"
	"verif/harness/internal/world"
)

func tierN(tier string, quick, thorough int) int {
	if tier == "thorough" {
		return thorough
	}
	return quick
}

// modelStats is what CompareListToModel learnt about the world while comparing.
type modelStats struct {
	Flags       refmodel.Flags
	Governed    bool
	AllEmpty    bool
	AllFull     bool
	Pairs       int
	Atoms       int
	Mismatches  int
	FirstDetail string
}

func shortWorld(w *world.World) string {
	docs := w.Docs()
	parts := make([]string, len(docs))
	for i, d := range docs {
		parts[i] = d.YAML
	}
	return strings.Join(parts, "---\n")
}

// CompareListToModel checks a successful `list` result point-wise against the reference model:
// every ordered pair of workloads, and every (workload, address) in both directions for one representative of
// each address atom and for the end points of every reported range. It records violations on r.
func CompareListToModel(w *world.World, res *observe.ListResult, r *run.CaseResult, monitor string) modelStats {
	m := &refmodel.Model{W: w}
	st := modelStats{AllEmpty: true, AllFull: true}
	rel := res.Relation()
	ranges := res.IPRanges()
	empty := refmodel.NewConn()
	peers := make([]refmodel.Peer, len(w.Workloads))
	names := make([]string, len(w.Workloads))
	known := map[string]bool{}
	for i := range w.Workloads {
		peers[i] = refmodel.WorkloadPeer(w, &w.Workloads[i])
		names[i] = w.Workloads[i].PeerString()
		known[names[i]] = true
		if len(m.Governing(peers[i], true)) > 0 || len(m.Governing(peers[i], false)) > 0 {
			st.Governed = true
		}
	}
	report := func(kind, src, dst string, exp, got *refmodel.Conn) {
		st.Mismatches++
		if st.Mismatches > 3 {
			return
		}
		pr, port, inExp := refmodel.FirstDiff(exp, got)
		shape := "extra"
		if inExp {
			shape = "missing"
		}
		d := fmt.Sprintf("%s -> %s: first differing point %s/%d (model allows=%v)", src, dst, pr, port, inExp)
		if st.FirstDetail == "" {
			st.FirstDetail = d
		}
		r.Violate(monitor, monitor+":"+kind+":"+shape, exp.String(), got.String(), d)
	}
	get := func(s, d string) *refmodel.Conn {
		if c, ok := rel[[2]string{s, d}]; ok {
			return c
		}
		return empty
	}
	track := func(c *refmodel.Conn) {
		if !c.IsEmpty() {
			st.AllEmpty = false
		}
		if !c.IsFull() {
			st.AllFull = false
		}
	}
	for i := range peers {
		for j := range peers {
			if i == j {
				continue
			}
			exp := m.Allowed(peers[i], peers[j], &st.Flags)
			got := get(names[i], names[j])
			st.Pairs++
			track(exp)
			if !exp.Equal(got) {
				report("podpair", names[i], names[j], exp, got)
			}
		}
	}
	// addresses: atom representatives + end points of every reported range
	points := map[uint32]bool{}
	atoms := refmodel.Atoms(w)
	st.Atoms = len(atoms)
	for _, a := range atoms {
		points[a[0]] = true
		points[a[1]] = true
	}
	for _, rg := range ranges {
		points[rg.Lo] = true
		points[rg.Hi] = true
	}
	pts := make([]uint32, 0, len(points))
	for p := range points {
		pts = append(pts, p)
	}
	sort.Slice(pts, func(i, j int) bool { return pts[i] < pts[j] })
	for _, a := range pts {
		rg := observe.FindRange(ranges, a)
		ip := refmodel.IPPeer(a)
		for i := range peers {
			e1 := m.Allowed(peers[i], ip, &st.Flags)
			e2 := m.Allowed(ip, peers[i], &st.Flags)
			g1, g2 := empty, empty
			if rg != "" {
				g1, g2 = get(names[i], rg), get(rg, names[i])
			}
			st.Pairs += 2
			track(e1)
			track(e2)
			if !e1.Equal(g1) {
				report("egressip", names[i], world.IPString(a)+" in ["+rg+"]", e1, g1)
			}
			if !e2.Equal(g2) {
				report("ingressip", world.IPString(a)+" in ["+rg+"]", names[i], e2, g2)
			}
		}
	}
	// entries about peers the world does not contain
	for _, e := range res.Entries {
		for _, side := range []struct {
			s  string
			ip bool
		}{{e.Src, e.SrcIP}, {e.Dst, e.DstIP}} {
			if !side.ip && !known[side.s] {
				st.Mismatches++
				r.Violate(monitor, monitor+":unknownpeer:extra", "only peers of the input", side.s, e.Src+" -> "+e.Dst)
			}
		}
	}
	r.Ev("pairs_compared", int64(st.Pairs))
	r.Ev("points_compared", int64(st.Pairs)*3*65535)
	r.Ev("address_points", int64(len(pts)))
	r.Ev("atoms", int64(st.Atoms))
	return st
}

// modelNamedOnIP says whether evaluating the world would require resolving a named port on an address.
func modelNamedOnIP(w *world.World) bool {
	m := &refmodel.Model{W: w}
	var fl refmodel.Flags
	for _, a := range refmodel.Atoms(w) {
		ip := refmodel.IPPeer(a[0])
		for i := range w.Workloads {
			m.Allowed(refmodel.WorkloadPeer(w, &w.Workloads[i]), ip, &fl)
			if fl.NamedOnIP {
				return true
			}
		}
	}
	return false
}

func sampleOf(w *world.World, res *observe.ListResult, max int) map[string]interface{} {
	ents := []string{}
	for i, e := range res.Entries {
		if i >= max {
			ents = append(ents, fmt.Sprintf("… %d more", len(res.Entries)-max))
			break
		}
		ents = append(ents, e.Src+" => "+e.Dst+" : "+e.Conn.String())
	}
	return map[string]interface{}{"input_yaml": shortWorld(w), "reported": ents, "error": res.Err}
}

func firstLines(s string, n int) string {
	ls := strings.Split(s, "\n")
	if len(ls) > n {
		ls = ls[:n]
	}
	return strings.Join(ls, " | ")
}
