package checks

import (
	"path/filepath"

	"verif/harness/internal/observe"
	"verif/harness/internal/run"
	"verif/harness/internal/world"
)

// Fixture-derived worlds for the model-based checks (C01, C02). The manifest directories shipped with the repository under test are
// converted into abstract worlds by world.FromDir (own decoder, gives up on anything outside the world vocabulary) and judged by the
// same reference model as the generated worlds - inputs written by other people, with shapes our generators never draw (dozens of
// workloads, long label sets, pods dumped from live clusters, policies of real applications). Per directory there are fixVariants(tier)
// cases: variant 0 analyses the directory AS SHIPPED and then the world re-emitted by our own emitter; variant v >= 1 applies a chain
// of v single-step edits (world.Mutate) to the converted world first, so that the neighbourhood of every realistic input is visited
// as well. The golden outputs next to the fixtures are never read.

func fixVariants(tier string) int { return tierN(tier, 3, 12) }

// nFixModel is the number of fixture-derived cases appended to the case list of a model-based check.
func nFixModel(tier string) int { return nFixtureCases * fixVariants(tier) }

// runFixtureModel runs the k-th fixture-derived case; admin selects the class of directories (with / without admin policies).
func runFixtureModel(c *run.Ctx, k int, admin bool, monitor string, evalRoute bool) {
	r := c.Res
	v := k % fixVariants(c.Tier)
	dir := fixtureFor(c.Repo, k/fixVariants(c.Tier))
	if dir == "" {
		r.Discarded = "no fixtures"
		return
	}
	base := filepath.Base(dir)
	r.Name = "fixture " + base
	if base == "ipblockstest_4" { // thousands of address atoms x 25 s per analysis
		r.Discarded = "fixture too slow"
		return
	}
	w, ingressObjs, why := world.FromDir(dir)
	if w == nil {
		r.Discarded = "fixture outside the world vocabulary: " + why
		r.Ev("fixture_not_convertible", 1)
		return
	}
	if (len(w.ANPs) > 0 || w.BANP != nil) != admin {
		r.Discarded = "fixture of the other class"
		r.Ev("fixture_other_class", 1)
		return
	}
	r.Ev("fixture_cases", 1)
	r.AddSet("fixture_dirs", base)
	r.Feat("fixture")
	compare := func(w *world.World, res *observe.ListResult, what string) bool {
		if res.Panic != "" {
			r.Violate(monitor+".total", monitor+".total:any:panic", "a result or an error", "panic: "+res.Panic, what)
			return false
		}
		if res.HasErr {
			if modelNamedOnIP(w) {
				r.Ev("named_port_on_address_error_accepted", 1)
				return false
			}
			r.Violate(monitor+".model", monitor+".model:toolerror:error", "a report (model evaluates the world without resolving a named port on an address)", "error: "+res.Err, what)
			return false
		}
		if ingressObjs {
			res = dropIngressController(res)
		}
		st := CompareListToModel(w, res, r, monitor+".model")
		if st.Governed {
			r.Effective = true
			if !st.AllEmpty && !st.AllFull {
				r.NonTrivial = true
			}
		}
		return st.Mismatches == 0
	}
	if v == 0 {
		r.Hash = "fixture/" + base
		r.Ev("fixture_as_shipped", 1)
		if !compare(w, observe.List(dir, observe.ListOpts{}), "directory as shipped: "+dir) {
			return
		}
	} else {
		g := c.R("fixmut")
		cfg := world.DefaultCfg()
		steps := ""
		for i := 0; i < v; i++ {
			if m, name := world.Mutate(g, w, cfg); m != nil && name != "none" {
				w = m
				steps += name + " "
			}
		}
		r.Hash = "fixture/" + base + "/" + w.Hash()
		r.Ev("fixture_mutated", 1)
		r.Name += " + " + steps
	}
	out := c.Dir("emitted")
	if err := w.Write(out, c.R("layout")); err != nil {
		r.Discarded = "emit: " + err.Error()
		return
	}
	ingressObjs = false // our emitter leaves Service / Ingress / Route objects out
	if compare(w, observe.List(out, observe.ListOpts{}), "re-emitted world") && evalRoute {
		evalAgainstModel(c, w, out, monitor+".eval")
	}
}
