package checks

import (
	"fmt"
	"os"
	"path/filepath"
	"testing"

	"verif/harness/internal/observe"
	"verif/harness/internal/run"
	"verif/harness/internal/world"
)

// TestFixtureProbe (manual: VERIF_FIXTURE_PROBE=/repo go test -tags verif -run TestFixtureProbe ./internal/checks) converts every
// fixture directory and compares the tool's report with the model; prints one line per directory.
func TestFixtureProbe(t *testing.T) {
	repo := os.Getenv("VERIF_FIXTURE_PROBE")
	if repo == "" {
		t.Skip("set VERIF_FIXTURE_PROBE=<repo>")
	}
	conv, ok, bad := 0, 0, 0
	reasons := map[string]int{}
	for _, d := range fixtureDirs(repo) {
		if filepath.Base(d) == "ipblockstest_4" {
			continue
		}
		w, ing, why := world.FromDir(d)
		if w == nil {
			reasons[why]++
			fmt.Printf("SKIP %s: %s\n", filepath.Base(d), why)
			continue
		}
		conv++
		res := observe.List(d, observe.ListOpts{})
		if res.Panic != "" || res.HasErr {
			fmt.Printf("ERR  %s: %s %s\n", filepath.Base(d), res.Err, firstLines(res.Panic, 2))
			continue
		}
		if ing {
			res = dropIngressController(res)
		}
		r := &run.CaseResult{}
		st := CompareListToModel(w, res, r, "probe")
		if len(r.Violations) > 0 {
			bad++
			fmt.Printf("BAD  %s: %d mismatches; %s | exp %s | got %s\n", filepath.Base(d), st.Mismatches, r.Violations[0].Detail, r.Violations[0].Expected, r.Violations[0].Observed)
		} else {
			ok++
			fmt.Printf("OK   %s: %d workloads %d np %d anp pairs=%d governed=%v\n", filepath.Base(d), len(w.Workloads), len(w.NetPols), len(w.ANPs), st.Pairs, st.Governed)
		}
	}
	fmt.Println("converted", conv, "ok", ok, "bad", bad, reasons)
}
