package checks

import (
	"os"
	"path/filepath"
	"sort"
	"strings"
	"verif/harness/internal/observe"
)

// fixtureDirs lists the manifest directories shipped with the repository under test (read-only INPUTS; their golden
// outputs, produced by the tool itself, are never used). Sorted, so that index -> directory is stable.
func fixtureDirs(repo string) []string {
	ents, err := os.ReadDir(filepath.Join(repo, "tests"))
	if err != nil {
		return nil
	}
	out := []string{}
	for _, e := range ents {
		if !e.IsDir() {
			continue
		}
		d := filepath.Join(repo, "tests", e.Name())
		has := false
		_ = filepath.Walk(d, func(p string, info os.FileInfo, err error) error {
			if err == nil && !info.IsDir() && (strings.HasSuffix(p, ".yaml") || strings.HasSuffix(p, ".yml") || strings.HasSuffix(p, ".json")) {
				has = true
			}
			return nil
		})
		if has {
			out = append(out, d)
		}
	}
	sort.Strings(out)
	return out
}

// fixtureFor returns the k-th fixture directory (k taken modulo their number), "" if there is none.
func fixtureFor(repo string, k int) string {
	ds := fixtureDirs(repo)
	if len(ds) == 0 {
		return ""
	}
	return ds[k%len(ds)]
}

func copyDir(src, dst string) error {
	return filepath.Walk(src, func(p string, info os.FileInfo, err error) error {
		if err != nil {
			return nil
		}
		rel, _ := filepath.Rel(src, p)
		t := filepath.Join(dst, rel)
		if info.IsDir() {
			return os.MkdirAll(t, 0o755)
		}
		b, err := os.ReadFile(p)
		if err != nil {
			return nil
		}
		return os.WriteFile(t, b, 0o644)
	})
}

// nFix is the number of fixture cases at the head of a case list: every third directory in the quick tier, all in thorough.
func nFix(tier string) int {
	if tier == "thorough" {
		return nFixtureCases
	}
	return (nFixtureCases + 2) / 3
}

// fixtureAt maps the k-th fixture case of a tier to its directory.
func fixtureAt(repo, tier string, k int) string {
	if tier != "thorough" {
		k *= 3
	}
	d := fixtureFor(repo, k)
	// ipblockstest_4 partitions the address space into thousands of ranges (25 s per analysis): thorough tier only
	if tier != "thorough" && filepath.Base(d) == "ipblockstest_4" {
		d = fixtureFor(repo, k+1)
	}
	return d
}

// dropIngressController returns a copy of the result without the synthetic {ingress-controller} lines (the subject of C10; the
// policy model of C01/C02 does not know that peer).
func dropIngressController(res *observe.ListResult) *observe.ListResult {
	c := *res
	c.Entries = nil
	for _, e := range res.Entries {
		if e.Src == "{ingress-controller}" || e.Dst == "{ingress-controller}" {
			continue
		}
		c.Entries = append(c.Entries, e)
	}
	return &c
}
