package checks

import (
	"sort"

	"verif/harness/internal/observe"
	"verif/harness/internal/refmodel"
	"verif/harness/internal/world"
)

// point is one (src,dst) point of two reports: two workloads, or a workload and one address.
type point struct {
	Src, Dst     string // display
	SrcWL, DstWL string // workload peer strings ("" for the address side)
	A, B         *refmodel.Conn
}

// forEachPoint enumerates all workload pairs (by peer string, after rename()) and all (workload, address atom, direction)
// points of two list results; atoms are induced by the range boundaries of both reports.
func forEachPoint(a, b *observe.ListResult, rename func(string) string, f func(p point)) int {
	if rename == nil {
		rename = func(s string) string { return s }
	}
	relOf := func(r *observe.ListResult) map[[2]string]*refmodel.Conn {
		m := map[[2]string]*refmodel.Conn{}
		for i := range r.Entries {
			e := &r.Entries[i]
			s, d := e.Src, e.Dst
			if !e.SrcIP {
				s = rename(s)
			}
			if !e.DstIP {
				d = rename(d)
			}
			m[[2]string{s, d}] = e.Conn
		}
		return m
	}
	ra, rb := relOf(a), relOf(b)
	ga, gb := a.IPRanges(), b.IPRanges()
	all := map[string]bool{}
	for _, res := range []*observe.ListResult{a, b} {
		for _, p := range res.Peers {
			if !p.IsIP {
				all[rename(p.Str)] = true
			}
		}
		for _, e := range res.Entries {
			if !e.SrcIP {
				all[rename(e.Src)] = true
			}
			if !e.DstIP {
				all[rename(e.Dst)] = true
			}
		}
	}
	names := make([]string, 0, len(all))
	for n := range all {
		names = append(names, n)
	}
	sort.Strings(names)
	empty := refmodel.NewConn()
	get := func(rel map[[2]string]*refmodel.Conn, s, t string) *refmodel.Conn {
		if s == "" || t == "" {
			return empty
		}
		if c, ok := rel[[2]string{s, t}]; ok {
			return c
		}
		return empty
	}
	n := 0
	for _, s := range names {
		for _, t := range names {
			if s != t {
				f(point{Src: s, Dst: t, SrcWL: s, DstWL: t, A: get(ra, s, t), B: get(rb, s, t)})
				n++
			}
		}
	}
	bounds := map[uint64]bool{0: true, 1 << 32: true}
	for _, g := range [][]observe.IPRange{ga, gb} {
		for _, x := range g {
			if x.Lo <= x.Hi {
				bounds[uint64(x.Lo)] = true
				bounds[uint64(x.Hi)+1] = true
			}
		}
	}
	bs := make([]uint64, 0, len(bounds))
	for x := range bounds {
		bs = append(bs, x)
	}
	sort.Slice(bs, func(i, j int) bool { return bs[i] < bs[j] })
	for i := 0; i+1 < len(bs); i++ {
		addr := uint32(bs[i])
		xa, xb := observe.FindRange(ga, addr), observe.FindRange(gb, addr)
		for _, w := range names {
			f(point{Src: w, Dst: world.IPString(addr), SrcWL: w, A: get(ra, w, xa), B: get(rb, w, xb)})
			f(point{Src: world.IPString(addr), Dst: w, DstWL: w, A: get(ra, xa, w), B: get(rb, xb, w)})
			n += 2
		}
	}
	return n
}
