package checks

import (
	"os"
	"testing"
)

// TestDumpWitnesses regenerates the human-readable YAML of the in-code witnesses (run manually: go test -tags verif -run TestDumpWitnesses ./internal/checks).
func TestDumpWitnesses(t *testing.T) {
	out := os.Getenv("VERIF_DUMP_WITNESSES")
	if out == "" {
		t.Skip("set VERIF_DUMP_WITNESSES=<findings dir>")
	}
	w := c08WitnessWorld()
	if err := w.Write(out+"/C08-selector-spelling/np-a-first", nil); err != nil {
		t.Fatal(err)
	}
	rev := w.Clone()
	rev.NetPols[0], rev.NetPols[1] = rev.NetPols[1], rev.NetPols[0]
	if err := rev.Write(out+"/C08-selector-spelling/np-b-first", nil); err != nil {
		t.Fatal(err)
	}
}
