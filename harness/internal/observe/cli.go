package observe

import (
	"bytes"
	"os/exec"
	"time"
)

// CLIResult is what one run of the built binary produced.
type CLIResult struct {
	Stdout   string
	Stderr   string
	Exit     int
	TimedOut bool
	StartErr string
}

// RunCLI runs the k8snetpolicy binary as a child process, stdout/stderr/exit status captured separately.
func RunCLI(bin, cwd string, args ...string) *CLIResult {
	cmd := exec.Command(bin, args...)
	cmd.Dir = cwd
	var so, se bytes.Buffer
	cmd.Stdout, cmd.Stderr = &so, &se
	res := &CLIResult{}
	if err := cmd.Start(); err != nil {
		res.StartErr = err.Error()
		res.Exit = -1
		return res
	}
	done := make(chan error, 1)
	go func() { done <- cmd.Wait() }()
	select {
	case err := <-done:
		if err != nil {
			if ee, ok := err.(*exec.ExitError); ok {
				res.Exit = ee.ExitCode()
			} else {
				res.Exit = -1
				res.StartErr = err.Error()
			}
		}
	case <-time.After(120 * time.Second):
		_ = cmd.Process.Kill()
		<-done
		res.TimedOut = true
		res.Exit = -2
	}
	res.Stdout, res.Stderr = so.String(), se.String()
	return res
}
