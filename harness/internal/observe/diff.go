package observe

import (
	"fmt"
	"runtime/debug"

	"github.com/np-guard/netpol-analyzer/pkg/netpol/diff"

	"verif/harness/internal/refmodel"
)

type DiffEntry struct {
	Type           string
	Src, Dst       string
	SrcIP, DstIP   bool
	SrcRanges      [][2]uint32
	DstRanges      [][2]uint32
	C1, C2         *refmodel.Conn
	C1All, C2All   bool
	SrcNew, DstNew bool // IsSrcNewOrRemoved / IsDstNewOrRemoved
	// which accessor list the entry came from
	List string
}

type DiffResult struct {
	Entries []DiffEntry
	Empty   bool
	Err     string
	HasErr  bool
	Errs    []ErrInfo
	Panic   string
	Output  string
	OutErr  string
	Raw     diff.ConnectivityDiff
}

type DiffOpts struct {
	StopOnError bool
	Format      string
	Names       [2]string
}

func connOfAllowed(a diff.AllowedConnectivity) (*refmodel.Conn, bool) {
	m := map[string][][2]int{}
	for pr, rs := range a.ProtocolsAndPorts() {
		for _, r := range rs {
			m[string(pr)] = append(m[string(pr)], [2]int{int(r.Start()), int(r.End())})
		}
	}
	return ConnOf(a.AllProtocolsAndPorts(), m), a.AllProtocolsAndPorts()
}

// Diff runs the library diff on two directories under recover.
func Diff(d1, d2 string, o DiffOpts) (res *DiffResult) {
	res = &DiffResult{}
	defer func() {
		if r := recover(); r != nil {
			res.Panic = fmt.Sprintf("%v\n%s", r, debug.Stack())
		}
	}()
	opts := []diff.DiffAnalyzerOption{diff.WithLogger(Silent{})}
	if o.StopOnError {
		opts = append(opts, diff.WithStopOnError())
	}
	if o.Format != "" {
		opts = append(opts, diff.WithOutputFormat(o.Format))
	}
	if o.Names[0] != "" {
		opts = append(opts, diff.WithArgNames(o.Names[0], o.Names[1]))
	}
	da := diff.NewDiffAnalyzer(opts...)
	cd, err := da.ConnDiffFromDirPaths(d1, d2)
	if err != nil {
		res.HasErr = true
		res.Err = SafeErrText(func() string { return err.Error() })
	}
	for _, e := range da.Errors() {
		e := e
		res.Errs = append(res.Errs, ErrInfo{Fatal: e.IsFatal(), Severe: e.IsSevere(),
			Text: SafeErrText(func() string { return e.Error().Error() }), Loc: SafeErrText(func() string { return e.Location() })})
	}
	if cd == nil || err != nil { // on error the returned value may be a typed nil: nothing to read
		return res
	}
	res.Raw = cd
	res.Empty = cd.IsEmpty()
	add := func(list string, xs []diff.SrcDstDiff) {
		for _, x := range xs {
			de := DiffEntry{List: list, Type: string(x.DiffType()), Src: x.Src().String(), Dst: x.Dst().String(),
				SrcIP: x.Src().IsPeerIPType(), DstIP: x.Dst().IsPeerIPType(), SrcNew: x.IsSrcNewOrRemoved(), DstNew: x.IsDstNewOrRemoved()}
			if de.SrcIP {
				de.SrcRanges = parseIPPeer(x.Src().IP())
			}
			if de.DstIP {
				de.DstRanges = parseIPPeer(x.Dst().IP())
			}
			de.C1, de.C1All = connOfAllowed(x.Ref1Connectivity())
			de.C2, de.C2All = connOfAllowed(x.Ref2Connectivity())
			res.Entries = append(res.Entries, de)
		}
	}
	// the four lists are fetched first and read afterwards, as a caller holding a diff result does: a list handed out earlier must
	// not change because another accessor was called
	removed, added, changed, unchanged := cd.RemovedConnections(), cd.AddedConnections(), cd.ChangedConnections(), cd.UnchangedConnections()
	add("removed", removed)
	add("added", added)
	add("changed", changed)
	add("unchanged", unchanged)
	if o.Format != "" && err == nil {
		out, ferr := da.ConnectivityDiffToString(cd)
		res.Output = out
		if ferr != nil {
			res.OutErr = ferr.Error()
		}
	}
	return res
}
