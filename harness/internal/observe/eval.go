package observe

import (
	"fmt"
	"runtime/debug"

	corev1 "k8s.io/api/core/v1"
	netv1 "k8s.io/api/networking/v1"

	"k8s.io/apimachinery/pkg/runtime"

	"github.com/np-guard/netpol-analyzer/pkg/manifests/fsscanner"
	"github.com/np-guard/netpol-analyzer/pkg/manifests/parser"
	"github.com/np-guard/netpol-analyzer/pkg/netpol/eval"
)

// ParseDir scans a directory with the repository's own scanner and parser (the route every entry point uses).
func ParseDir(dir string) (objs []parser.K8sObject, panicked string) {
	defer func() {
		if r := recover(); r != nil {
			panicked = fmt.Sprintf("%v\n%s", r, debug.Stack())
		}
	}()
	infos, _ := fsscanner.GetResourceInfosFromDirPath([]string{dir}, true, false)
	objs, _ = parser.ResourceInfoListToK8sObjectsList(infos, Silent{}, true)
	return objs, ""
}

// RuntimeObject extracts the typed object of a parsed K8sObject (nil for kinds the engine does not take).
func RuntimeObject(o *parser.K8sObject) runtime.Object {
	switch o.Kind {
	case parser.Namespace:
		return o.Namespace
	case parser.NetworkPolicy:
		return o.NetworkPolicy
	case parser.Pod:
		return o.Pod
	case parser.ReplicaSet:
		return o.ReplicaSet
	case parser.Deployment:
		return o.Deployment
	case parser.DaemonSet:
		return o.DaemonSet
	case parser.StatefulSet:
		return o.StatefulSet
	case parser.ReplicationController:
		return o.ReplicationController
	case parser.Job:
		return o.Job
	case parser.CronJob:
		return o.CronJob
	case parser.AdminNetworkPolicy:
		return o.AdminNetworkPolicy
	case parser.BaselineAdminNetworkPolicy:
		return o.BaselineAdminNetworkPolicy
	}
	return nil
}

// Engine wraps a PolicyEngine; every call runs under recover.
type Engine struct {
	PE *eval.PolicyEngine
}

type CallResult struct {
	Allowed bool
	Err     string
	HasErr  bool
	Panic   string
}

func guard(f func() error) (res CallResult) {
	defer func() {
		if r := recover(); r != nil {
			res.Panic = fmt.Sprintf("%v\n%s", r, debug.Stack())
		}
	}()
	if err := f(); err != nil {
		res.HasErr = true
		res.Err = SafeErrText(func() string { return err.Error() })
	}
	return res
}

// NewEngineWithObjects = eval.NewPolicyEngineWithObjects under recover.
func NewEngineWithObjects(objs []parser.K8sObject) (*Engine, CallResult) {
	e := &Engine{}
	res := guard(func() error {
		pe, err := eval.NewPolicyEngineWithObjects(objs)
		e.PE = pe
		return err
	})
	return e, res
}

func NewEngine() *Engine { return &Engine{PE: eval.NewPolicyEngine()} }

func (e *Engine) Insert(o runtime.Object) CallResult {
	return guard(func() error { return e.PE.InsertObject(o) })
}

func (e *Engine) Delete(o runtime.Object) CallResult {
	return guard(func() error { return e.PE.DeleteObject(o) })
}

func (e *Engine) Check(src, dst, proto, port string) CallResult {
	var allowed bool
	res := guard(func() error {
		a, err := e.PE.CheckIfAllowed(src, dst, proto, port)
		allowed = a
		return err
	})
	res.Allowed = allowed
	return res
}

// Clear calls ClearResources: afterwards the engine holds no object at all.
func (e *Engine) Clear() CallResult {
	return guard(func() error { e.PE.ClearResources(); return nil })
}

func (e *Engine) CacheHits() int { return e.PE.VerifCacheHits() }
func (e *Engine) CacheLen() int  { return e.PE.VerifCacheLen() }

// SetResources calls the (deprecated, still exported) bulk setter with the NetworkPolicies, Pods and Namespaces among objs;
// it returns the objects it could not pass (other kinds), which the caller inserts one by one.
func (e *Engine) SetResources(objs []runtime.Object) (CallResult, []runtime.Object) {
	var nps []*netv1.NetworkPolicy
	var pods []*corev1.Pod
	var nss []*corev1.Namespace
	rest := []runtime.Object{}
	for _, o := range objs {
		switch t := o.(type) {
		case *netv1.NetworkPolicy:
			nps = append(nps, t)
		case *corev1.Pod:
			pods = append(pods, t)
		case *corev1.Namespace:
			nss = append(nss, t)
		default:
			rest = append(rest, o)
		}
	}
	return guard(func() error { return e.PE.SetResources(nps, pods, nss) }), rest
}
