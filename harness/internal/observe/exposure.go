package observe

import (
	"sort"

	metav1 "k8s.io/apimachinery/pkg/apis/meta/v1"

	"github.com/np-guard/netpol-analyzer/pkg/netpol/connlist"

	"verif/harness/internal/refmodel"
	"verif/harness/internal/world"
)

// XgressInfo is the neutral view of one exposure entry.
type XgressInfo struct {
	EntireCluster bool
	NsSel         *world.Sel
	PodSel        *world.Sel
	All           bool
	Ranges        map[string][][2]int
	Conn          *refmodel.Conn      // numeric part
	Named         map[string][]string // protocol -> named ports (read through the verif alias export)
	ConnStr       string
}

type ExposedInfo struct {
	Peer             string
	IngressProtected bool
	EgressProtected  bool
	Ingress          []XgressInfo
	Egress           []XgressInfo
}

// SelFromMeta converts a k8s label selector into our own representation (plain data copy).
func SelFromMeta(s metav1.LabelSelector) *world.Sel {
	out := &world.Sel{}
	if len(s.MatchLabels) > 0 {
		out.ML = map[string]string{}
		for k, v := range s.MatchLabels {
			out.ML[k] = v
		}
	}
	for _, e := range s.MatchExpressions {
		out.ME = append(out.ME, world.Req{Key: e.Key, Op: string(e.Operator), Vals: append([]string(nil), e.Values...)})
	}
	return out
}

func xgressInfos(xs []connlist.XgressExposureData) []XgressInfo {
	out := []XgressInfo{}
	for _, x := range xs {
		xi := XgressInfo{EntireCluster: x.IsExposedToEntireCluster(), NsSel: SelFromMeta(x.NamespaceLabels()), PodSel: SelFromMeta(x.PodLabels()),
			Ranges: map[string][][2]int{}, Named: map[string][]string{}}
		pc := x.PotentialConnectivity()
		xi.All = pc.IsAllConnections()
		for pr, rs := range pc.ProtocolsAndPortsMap() {
			for _, r := range rs {
				xi.Ranges[string(pr)] = append(xi.Ranges[string(pr)], [2]int{int(r.Start()), int(r.End())})
			}
		}
		xi.Conn = ConnOf(xi.All, xi.Ranges)
		if cs, ok := pc.(*connlist.VerifConnectionSet); ok {
			for pr, names := range cs.GetNamedPorts() {
				ns := append([]string(nil), names...)
				sort.Strings(ns)
				if len(ns) > 0 {
					xi.Named[string(pr)] = ns
				}
			}
			xi.ConnStr = cs.String()
		}
		out = append(out, xi)
	}
	return out
}

func exposedInfos(eps []connlist.ExposedPeer) []ExposedInfo {
	out := []ExposedInfo{}
	for _, ep := range eps {
		out = append(out, ExposedInfo{Peer: ep.ExposedPeer().String(),
			IngressProtected: ep.IsProtectedByIngressNetpols(), EgressProtected: ep.IsProtectedByEgressNetpols(),
			Ingress: xgressInfos(ep.IngressExposure()), Egress: xgressInfos(ep.EgressExposure())})
	}
	return out
}
