// Package observe runs the real code and converts what it returns into neutral values
// (strings, address ranges, bitsets) that the monitors consume.
package observe

import (
	"fmt"
	"runtime/debug"
	"sort"
	"strings"

	"github.com/np-guard/netpol-analyzer/pkg/manifests/fsscanner"
	"github.com/np-guard/netpol-analyzer/pkg/netpol/connlist"

	"verif/harness/internal/refmodel"
	"verif/harness/internal/world"
)

// Silent is a logger that drops everything.
type Silent struct{}

func (Silent) Debugf(string, ...interface{})        {}
func (Silent) Infof(string, ...interface{})         {}
func (Silent) Warnf(string, ...interface{})         {}
func (Silent) Errorf(error, string, ...interface{}) {}

// PeerInfo is the neutral view of a returned peer.
type PeerInfo struct {
	Str    string
	IsIP   bool
	Name   string
	Ns     string
	Kind   string
	Ranges [][2]uint32 // for IP peers: the ranges parsed from Peer.IP()/String()
}

// Entry is one reported connection.
type Entry struct {
	Src, Dst string
	SrcIP    bool
	DstIP    bool
	All      bool                // AllProtocolsAndPorts()
	Ranges   map[string][][2]int // raw ProtocolsAndPorts()
	Conn     *refmodel.Conn      // denotation
}

type ErrInfo struct {
	Text   string
	Loc    string
	Fatal  bool
	Severe bool
}

// ListResult is everything one `list` run returned.
type ListResult struct {
	Entries []Entry
	Peers   []PeerInfo
	Err     string // returned error ("" = nil)
	HasErr  bool
	Errs    []ErrInfo
	Panic   string // recovered panic value + stack ("" = none)
	Output  string // formatted output if requested
	// OutputAgainDiffers: a second ConnectionsListToString on the same analyzer and connections returned other bytes (OutputAgain)
	OutputAgainDiffers bool
	OutputAgain        string
	OutErr             string
	Exposed            []ExposedInfo
	ScanErrs           int // ViaInfos only: errors the directory scan itself returned (they never reach the analyzer on that route)
	// raw handles for monitors that need the real objects (same process only)
	RawConns []connlist.Peer2PeerConnection
	RawPeers []connlist.Peer
	Analyzer *connlist.ConnlistAnalyzer
}

type ListOpts struct {
	Exposure    bool
	Focus       string
	StopOnError bool
	Format      string // "" = no formatting
	ViaInfos    bool   // use fsscanner + ConnlistFromResourceInfos
	// Twice: the analyzer first analyses the directory once (result dropped) and the result reported is that of its SECOND analysis of
	// the same directory - an analyzer object is not single-use, and what it was configured with holds for every analysis it makes
	Twice bool
}

func parseIPPeer(s string) [][2]uint32 {
	out := [][2]uint32{}
	for _, part := range strings.Split(s, ",") {
		part = strings.TrimSpace(part)
		if lo, hi, ok := world.ParseRange(part); ok {
			out = append(out, [2]uint32{lo, hi})
		} else {
			out = append(out, [2]uint32{1, 0}) // unparsable marker (lo>hi)
		}
	}
	return out
}

func peerInfo(p connlist.Peer) PeerInfo {
	pi := PeerInfo{Str: p.String(), IsIP: p.IsPeerIPType(), Name: p.Name(), Ns: p.Namespace(), Kind: p.Kind()}
	if pi.IsIP {
		pi.Ranges = parseIPPeer(p.IP())
	}
	return pi
}

// ConnOf converts a reported connection into its denotation.
func ConnOf(all bool, m map[string][][2]int) *refmodel.Conn {
	if all {
		return refmodel.FullConn()
	}
	c := refmodel.NewConn()
	for pr, rs := range m {
		for _, r := range rs {
			c.AddRange(pr, r[0], r[1])
		}
	}
	return c
}

func entryOf(c connlist.Peer2PeerConnection) Entry {
	e := Entry{Src: c.Src().String(), Dst: c.Dst().String(), SrcIP: c.Src().IsPeerIPType(), DstIP: c.Dst().IsPeerIPType(),
		All: c.AllProtocolsAndPorts(), Ranges: map[string][][2]int{}}
	for pr, rs := range c.ProtocolsAndPorts() {
		for _, r := range rs {
			e.Ranges[string(pr)] = append(e.Ranges[string(pr)], [2]int{int(r.Start()), int(r.End())})
		}
	}
	e.Conn = ConnOf(e.All, e.Ranges)
	return e
}

// SafeErrText renders an error entry under recover (some entries wrap nil errors).
func SafeErrText(f func() string) (s string) {
	defer func() {
		if r := recover(); r != nil {
			s = fmt.Sprintf("<unrenderable error: %v>", r)
		}
	}()
	return f()
}

func mkAnalyzer(o ListOpts) *connlist.ConnlistAnalyzer {
	opts := []connlist.ConnlistAnalyzerOption{connlist.WithLogger(Silent{}), connlist.WithMuteErrsAndWarns()}
	if o.Exposure {
		opts = append(opts, connlist.WithExposureAnalysis())
	}
	if o.Focus != "" {
		opts = append(opts, connlist.WithFocusWorkload(o.Focus))
	}
	if o.StopOnError {
		opts = append(opts, connlist.WithStopOnError())
	}
	if o.Format != "" {
		opts = append(opts, connlist.WithOutputFormat(o.Format))
	}
	return connlist.NewConnlistAnalyzer(opts...)
}

// List runs the library `list` on a directory under recover.
func List(dir string, o ListOpts) (res *ListResult) {
	res = &ListResult{}
	defer func() {
		if r := recover(); r != nil {
			res.Panic = fmt.Sprintf("%v\n%s", r, debug.Stack())
		}
	}()
	ca := mkAnalyzer(o)
	res.Analyzer = ca
	var conns []connlist.Peer2PeerConnection
	var peers []connlist.Peer
	var err error
	if o.Twice {
		_, _, _ = ca.ConnlistFromDirPath(dir)
	}
	if o.ViaInfos {
		infos, scanErrs := fsscanner.GetResourceInfosFromDirPath([]string{dir}, true, false)
		res.ScanErrs = len(scanErrs)
		conns, peers, err = ca.ConnlistFromResourceInfos(infos)
	} else {
		conns, peers, err = ca.ConnlistFromDirPath(dir)
	}
	if err != nil {
		res.HasErr = true
		res.Err = SafeErrText(func() string { return err.Error() })
	}
	res.RawConns, res.RawPeers = conns, peers
	for _, c := range conns {
		res.Entries = append(res.Entries, entryOf(c))
	}
	for _, p := range peers {
		res.Peers = append(res.Peers, peerInfo(p))
	}
	for _, e := range ca.Errors() {
		e := e
		res.Errs = append(res.Errs, ErrInfo{Fatal: e.IsFatal(), Severe: e.IsSevere(),
			Text: SafeErrText(func() string { return e.Error().Error() }), Loc: SafeErrText(func() string { return e.Location() })})
	}
	if o.Exposure {
		res.Exposed = exposedInfos(ca.ExposedPeers())
	}
	if o.Format != "" && err == nil {
		out, ferr := ca.ConnectionsListToString(conns)
		res.Output = out
		if ferr != nil {
			res.OutErr = ferr.Error()
		} else {
			// the same analyzer asked again for the same connections must answer with the same bytes (a formatter that keeps state
			// between calls - rows remembered from the previous call - shows here)
			if out2, ferr2 := ca.ConnectionsListToString(conns); ferr2 != nil || out2 != out {
				res.OutputAgainDiffers = true
				res.OutputAgain = out2
			}
		}
	}
	return res
}

// Relation indexes entries by (src,dst).
func (r *ListResult) Relation() map[[2]string]*refmodel.Conn {
	m := map[[2]string]*refmodel.Conn{}
	for i := range r.Entries {
		e := &r.Entries[i]
		m[[2]string{e.Src, e.Dst}] = e.Conn
	}
	return m
}

// IPRanges returns the sorted address ranges of the returned IP peers (one per peer when well formed).
func (r *ListResult) IPRanges() []IPRange {
	out := []IPRange{}
	for _, p := range r.Peers {
		if p.IsIP {
			for _, rg := range p.Ranges {
				out = append(out, IPRange{Lo: rg[0], Hi: rg[1], Str: p.Str})
			}
		}
	}
	sort.Slice(out, func(i, j int) bool { return out[i].Lo < out[j].Lo })
	return out
}

type IPRange struct {
	Lo, Hi uint32
	Str    string
}

// FindRange returns the peer string of the range holding a ("" if none).
func FindRange(rs []IPRange, a uint32) string {
	for _, r := range rs {
		if r.Lo <= a && a <= r.Hi {
			return r.Str
		}
	}
	return ""
}

// HasFatal reports whether Errors() holds a fatal entry.
func (r *ListResult) HasFatal() bool {
	for _, e := range r.Errs {
		if e.Fatal {
			return true
		}
	}
	return false
}

func (r *ListResult) Severe() int {
	n := 0
	for _, e := range r.Errs {
		if e.Severe {
			n++
		}
	}
	return n
}
