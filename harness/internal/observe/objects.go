package observe

import (
	"fmt"

	appsv1 "k8s.io/api/apps/v1"
	batchv1 "k8s.io/api/batch/v1"
	corev1 "k8s.io/api/core/v1"
	netv1 "k8s.io/api/networking/v1"
	"k8s.io/apimachinery/pkg/runtime"
	apisv1a "sigs.k8s.io/network-policy-api/apis/v1alpha1"
	"sigs.k8s.io/yaml"

	"github.com/np-guard/netpol-analyzer/pkg/manifests/parser"

	"verif/harness/internal/world"
)

// ObjectFromDoc unmarshals one emitted document into its typed k8s object (a fresh instance on every call).
func ObjectFromDoc(d world.Doc) (parser.K8sObject, runtime.Object, error) {
	var head struct {
		Kind string `json:"kind"`
	}
	if err := yaml.Unmarshal([]byte(d.YAML), &head); err != nil {
		return parser.K8sObject{}, nil, err
	}
	o := parser.K8sObject{Kind: head.Kind}
	var target runtime.Object
	switch head.Kind {
	case parser.Namespace:
		o.Namespace = &corev1.Namespace{}
		target = o.Namespace
	case parser.Pod:
		o.Pod = &corev1.Pod{}
		target = o.Pod
	case parser.NetworkPolicy:
		o.NetworkPolicy = &netv1.NetworkPolicy{}
		target = o.NetworkPolicy
	case parser.AdminNetworkPolicy:
		o.AdminNetworkPolicy = &apisv1a.AdminNetworkPolicy{}
		target = o.AdminNetworkPolicy
	case parser.BaselineAdminNetworkPolicy:
		o.BaselineAdminNetworkPolicy = &apisv1a.BaselineAdminNetworkPolicy{}
		target = o.BaselineAdminNetworkPolicy
	case parser.Deployment:
		o.Deployment = &appsv1.Deployment{}
		target = o.Deployment
	case parser.ReplicaSet:
		o.ReplicaSet = &appsv1.ReplicaSet{}
		target = o.ReplicaSet
	case parser.StatefulSet:
		o.StatefulSet = &appsv1.StatefulSet{}
		target = o.StatefulSet
	case parser.DaemonSet:
		o.DaemonSet = &appsv1.DaemonSet{}
		target = o.DaemonSet
	case parser.ReplicationController:
		o.ReplicationController = &corev1.ReplicationController{}
		target = o.ReplicationController
	case parser.Job:
		o.Job = &batchv1.Job{}
		target = o.Job
	case parser.CronJob:
		o.CronJob = &batchv1.CronJob{}
		target = o.CronJob
	default:
		return o, nil, fmt.Errorf("kind %s not convertible", head.Kind)
	}
	if err := yaml.Unmarshal([]byte(d.YAML), target); err != nil {
		return o, nil, err
	}
	return o, target, nil
}

// ObjectsFromWorld converts every document of a world into typed objects.
func ObjectsFromWorld(w *world.World) ([]parser.K8sObject, error) {
	out := []parser.K8sObject{}
	for _, d := range w.Docs() {
		if o, ok := objMemo[d.YAML]; ok {
			out = append(out, o)
			continue
		}
		o, _, err := ObjectFromDoc(d)
		if err != nil {
			return nil, err
		}
		if len(objMemo) > 5000 {
			objMemo = map[string]parser.K8sObject{}
		}
		objMemo[d.YAML] = o
		out = append(out, o)
	}
	return out, nil
}

// objMemo avoids re-unmarshalling unchanged documents when a fresh engine is built after every step of a history
// (the engine does not modify the objects it is given; workers are single-threaded).
var objMemo = map[string]parser.K8sObject{}
