package observe

import (
	"fmt"
	"sort"
)

// Problem is one broken well-formedness invariant of a list result.
type Problem struct {
	Kind   string
	Detail string
}

// WellFormed checks the invariants of property C05 on a returned result.
// peersComplete=false skips the cover / membership checks (callers that filter the peers themselves); list results - focused ones included - are complete.
func WellFormed(res *ListResult, peersComplete bool) []Problem {
	ps := []Problem{}
	add := func(k, d string) { ps = append(ps, Problem{k, d}) }
	seen := map[[2]string]bool{}
	peerSet := map[string]bool{}
	for _, p := range res.Peers {
		peerSet[p.Str] = true
	}
	for _, e := range res.Entries {
		k := [2]string{e.Src, e.Dst}
		if seen[k] {
			add("duplicate-pair", e.Src+" -> "+e.Dst)
		}
		seen[k] = true
		if e.Src == e.Dst {
			add("self-pair", e.Src)
		}
		if e.SrcIP && e.DstIP {
			add("ip-ip-pair", e.Src+" -> "+e.Dst)
		}
		nonEmpty := e.All
		full := 0
		for pr, rs := range e.Ranges {
			if pr != "TCP" && pr != "UDP" && pr != "SCTP" {
				add("unknown-protocol", pr)
			}
			if len(rs) > 0 {
				nonEmpty = true
			}
			if len(rs) == 1 && rs[0] == [2]int{1, 65535} {
				full++
			}
			for i, r := range rs {
				if r[0] < 1 || r[1] > 65535 || r[0] > r[1] {
					add("range-out-of-bounds", fmt.Sprintf("%s -> %s %s %d-%d", e.Src, e.Dst, pr, r[0], r[1]))
				}
				if i > 0 {
					prev := rs[i-1]
					switch {
					case r[0] <= prev[1]:
						add("ranges-unsorted-or-overlapping", fmt.Sprintf("%s -> %s %s %v", e.Src, e.Dst, pr, rs))
					case r[0] == prev[1]+1:
						add("ranges-adjacent", fmt.Sprintf("%s -> %s %s %v", e.Src, e.Dst, pr, rs))
					}
				}
			}
		}
		if !nonEmpty {
			add("empty-connection", e.Src+" -> "+e.Dst)
		}
		if e.All && len(e.Ranges) > 0 {
			add("all-flag-with-ranges", e.Src+" -> "+e.Dst)
		}
		if !e.All && full == 3 {
			add("all-spelled-as-three-full-ranges", e.Src+" -> "+e.Dst)
		}
		if peersComplete {
			if !peerSet[e.Src] && e.Src != "{ingress-controller}" {
				add("entry-peer-not-in-peer-list", e.Src)
			}
			if !peerSet[e.Dst] {
				add("entry-peer-not-in-peer-list", e.Dst)
			}
		}
	}
	// address peers
	type rg struct {
		lo, hi uint32
		s      string
	}
	rs := []rg{}
	for _, p := range res.Peers {
		if !p.IsIP {
			continue
		}
		if len(p.Ranges) != 1 {
			add("ip-peer-not-contiguous", p.Str)
		}
		for _, r := range p.Ranges {
			if r[0] > r[1] {
				add("ip-peer-unparsable", p.Str)
				continue
			}
			rs = append(rs, rg{r[0], r[1], p.Str})
		}
	}
	sort.Slice(rs, func(i, j int) bool { return rs[i].lo < rs[j].lo })
	for i := 1; i < len(rs); i++ {
		if rs[i].lo <= rs[i-1].hi {
			add("ip-peers-overlap", rs[i-1].s+" / "+rs[i].s)
		}
	}
	if peersComplete && len(res.Peers) > 0 {
		next := uint64(0)
		for _, r := range rs {
			if uint64(r.lo) > next {
				add("ip-peers-gap", fmt.Sprintf("addresses %d..%d belong to no peer", next, uint64(r.lo)-1))
			}
			if uint64(r.hi)+1 > next {
				next = uint64(r.hi) + 1
			}
		}
		if next != 1<<32 {
			add("ip-peers-gap", fmt.Sprintf("addresses from %d belong to no peer", next))
		}
	}
	return ps
}
