// Package refmodel is the independent, deliberately naive reference semantics. It imports nothing
// from the repository under test and nothing from k8s label-matching libraries.
package refmodel

import (
	"fmt"
	"math/bits"
	"strings"
)

const words = 1024

// PSet is a set of ports (bit p = port p; only 1..65535 are ever set).
type PSet [words]uint64

// Conn is a set of (protocol, port) points; index 0 TCP, 1 UDP, 2 SCTP.
type Conn struct{ P [3]PSet }

var ProtoNames = [3]string{"TCP", "UDP", "SCTP"}

func ProtoIdx(p string) int {
	switch strings.ToUpper(p) {
	case "", "TCP":
		return 0
	case "UDP":
		return 1
	case "SCTP":
		return 2
	}
	return -1
}

func (s *PSet) AddRange(lo, hi int) {
	if lo < 1 {
		lo = 1
	}
	if hi > 65535 {
		hi = 65535
	}
	for p := lo; p <= hi; {
		w := p >> 6
		b := uint(p & 63)
		if b == 0 && p+63 <= hi {
			s[w] = ^uint64(0)
			p += 64
			continue
		}
		s[w] |= 1 << b
		p++
	}
}

func (s *PSet) Has(p int) bool { return p >= 0 && p <= 65535 && s[p>>6]&(1<<uint(p&63)) != 0 }

func (s *PSet) IsEmpty() bool {
	for _, w := range s {
		if w != 0 {
			return false
		}
	}
	return true
}

func (s *PSet) IsFull() bool {
	if s[0] != ^uint64(1) {
		return false
	}
	for _, w := range s[1:] {
		if w != ^uint64(0) {
			return false
		}
	}
	return true
}

func (s *PSet) Count() int {
	n := 0
	for _, w := range s {
		n += bits.OnesCount64(w)
	}
	return n
}

// Ranges lists maximal runs.
func (s *PSet) Ranges() [][2]int {
	out := [][2]int{}
	start := -1
	for w := 0; w < words; w++ {
		x := s[w]
		if x == 0 {
			if start >= 0 {
				out = append(out, [2]int{start, w*64 - 1})
				start = -1
			}
			continue
		}
		if x == ^uint64(0) {
			if start < 0 {
				start = w * 64
			}
			continue
		}
		for b := 0; b < 64; b++ {
			p := w*64 + b
			in := x&(1<<uint(b)) != 0
			if in && start < 0 {
				start = p
			}
			if !in && start >= 0 {
				out = append(out, [2]int{start, p - 1})
				start = -1
			}
		}
	}
	if start >= 0 {
		out = append(out, [2]int{start, 65535})
	}
	return out
}

func NewConn() *Conn { return &Conn{} }

func FullConn() *Conn {
	c := &Conn{}
	for i := 0; i < 3; i++ {
		c.P[i].AddRange(1, 65535)
	}
	return c
}

func (c *Conn) Clone() *Conn { d := *c; return &d }

func (c *Conn) Or(o *Conn) *Conn {
	for i := 0; i < 3; i++ {
		for j := range c.P[i] {
			c.P[i][j] |= o.P[i][j]
		}
	}
	return c
}

func (c *Conn) And(o *Conn) *Conn {
	for i := 0; i < 3; i++ {
		for j := range c.P[i] {
			c.P[i][j] &= o.P[i][j]
		}
	}
	return c
}

func (c *Conn) AndNot(o *Conn) *Conn {
	for i := 0; i < 3; i++ {
		for j := range c.P[i] {
			c.P[i][j] &^= o.P[i][j]
		}
	}
	return c
}

func (c *Conn) Equal(o *Conn) bool { return *c == *o }

func (c *Conn) IsEmpty() bool { return c.P[0].IsEmpty() && c.P[1].IsEmpty() && c.P[2].IsEmpty() }
func (c *Conn) IsFull() bool  { return c.P[0].IsFull() && c.P[1].IsFull() && c.P[2].IsFull() }

// SubsetOf reports c ⊆ o.
func (c *Conn) SubsetOf(o *Conn) bool {
	for i := 0; i < 3; i++ {
		for j := range c.P[i] {
			if c.P[i][j]&^o.P[i][j] != 0 {
				return false
			}
		}
	}
	return true
}

func (c *Conn) Has(proto string, port int) bool {
	i := ProtoIdx(proto)
	return i >= 0 && c.P[i].Has(port)
}

func (c *Conn) AddRange(proto string, lo, hi int) {
	if i := ProtoIdx(proto); i >= 0 {
		c.P[i].AddRange(lo, hi)
	}
}

// String prints the set the way a person would: "All Connections", "No Connections", or "SCTP 1-2,TCP 80,UDP 53".
// (alphabetical protocol order; this is our own printer, used to compare against the tool's strings in C09.)
func (c *Conn) String() string {
	if c.IsFull() {
		return "All Connections"
	}
	if c.IsEmpty() {
		return "No Connections"
	}
	parts := []string{}
	for _, i := range []int{2, 0, 1} { // SCTP, TCP, UDP
		rs := c.P[i].Ranges()
		if len(rs) == 0 {
			continue
		}
		items := make([]string, len(rs))
		for k, r := range rs {
			if r[0] == r[1] {
				items[k] = fmt.Sprintf("%d", r[0])
			} else {
				items[k] = fmt.Sprintf("%d-%d", r[0], r[1])
			}
		}
		parts = append(parts, ProtoNames[i]+" "+strings.Join(items, ","))
	}
	return strings.Join(parts, ",")
}

// FirstDiff returns one point where the two sets differ.
func FirstDiff(a, b *Conn) (proto string, port int, inA bool) {
	for i := 0; i < 3; i++ {
		for j := range a.P[i] {
			if x := a.P[i][j] ^ b.P[i][j]; x != 0 {
				bit := bits.TrailingZeros64(x)
				return ProtoNames[i], j*64 + bit, a.P[i][j]&(1<<uint(bit)) != 0
			}
		}
	}
	return "", 0, false
}
