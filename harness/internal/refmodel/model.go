package refmodel

import (
	"sort"

	"verif/harness/internal/world"
)

// Peer is one end of a connection for the model: a pod (real workload or hypothetical) or one address.
type Peer struct {
	IsIP     bool
	IP       uint32
	Name     string
	Ns       string
	NsLabels map[string]string // effective namespace labels (incl. kubernetes.io/metadata.name)
	Labels   map[string]string
	Ports    []world.CPort
}

func WorkloadPeer(w *world.World, wl *world.Workload) Peer {
	return Peer{Name: wl.Name, Ns: wl.Ns, NsLabels: w.NsLabels(wl.Ns), Labels: wl.Labels, Ports: wl.Ports}
}

func IPPeer(a uint32) Peer { return Peer{IsIP: true, IP: a} }

// Match is our own label-selector matcher.
func Match(s *world.Sel, labels map[string]string) bool {
	if s == nil {
		return true
	}
	for k, v := range s.ML {
		if x, ok := labels[k]; !ok || x != v {
			return false
		}
	}
	for _, e := range s.ME {
		x, ok := labels[e.Key]
		in := false
		for _, v := range e.Vals {
			if ok && v == x {
				in = true
			}
		}
		switch e.Op {
		case "In":
			if !in {
				return false
			}
		case "NotIn":
			if in {
				return false
			}
		case "Exists":
			if !ok {
				return false
			}
		case "DoesNotExist":
			if ok {
				return false
			}
		}
	}
	return true
}

// Flags collects side observations of a model evaluation.
type Flags struct {
	NamedOnIP bool // a named port would have had to be resolved on an address
	// layer bookkeeping (some point of some evaluated direction was decided by that layer)
	ByANP, ByNP, ByBANP, ByDefault bool
}

func (f *Flags) Merge(o Flags) {
	f.NamedOnIP = f.NamedOnIP || o.NamedOnIP
	f.ByANP = f.ByANP || o.ByANP
	f.ByNP = f.ByNP || o.ByNP
	f.ByBANP = f.ByBANP || o.ByBANP
	f.ByDefault = f.ByDefault || o.ByDefault
}

type Model struct{ W *world.World }

// Governing returns the NetworkPolicies that govern pod in the direction.
func (m *Model) Governing(pod Peer, ingress bool) []*world.NetPol {
	out := []*world.NetPol{}
	for i := range m.W.NetPols {
		np := &m.W.NetPols[i]
		if np.Ns == pod.Ns && Match(&np.PodSel, pod.Labels) && np.HasDirection(ingress) {
			out = append(out, np)
		}
	}
	return out
}

// NPPeerMatch: does the rule's peer list match `other`?
func NPPeerMatch(np *world.NetPol, rule *world.NPRule, other Peer) bool {
	if len(rule.Peers) == 0 {
		return true
	}
	for _, p := range rule.Peers {
		if p.IPBlock != nil {
			if !other.IsIP {
				continue
			}
			lo, hi, ok := world.CIDRRange(p.IPBlock.CIDR)
			if !ok || other.IP < lo || other.IP > hi {
				continue
			}
			ex := false
			for _, e := range p.IPBlock.Except {
				el, eh, ok := world.CIDRRange(e)
				if ok && other.IP >= el && other.IP <= eh {
					ex = true
				}
			}
			if !ex {
				return true
			}
			continue
		}
		if other.IsIP {
			continue
		}
		if p.NsSel != nil {
			if !Match(p.NsSel, other.NsLabels) {
				continue
			}
		} else if other.Ns != np.Ns {
			continue
		}
		if p.PodSel != nil && !Match(p.PodSel, other.Labels) {
			continue
		}
		return true
	}
	return false
}

// NPPorts: the points a rule's port list denotes towards dst.
func NPPorts(rule *world.NPRule, dst Peer, fl *Flags) *Conn {
	if len(rule.Ports) == 0 {
		return FullConn()
	}
	c := NewConn()
	for _, pt := range rule.Ports {
		pr := pt.Protocol()
		switch {
		case pt.Name != "":
			if dst.IsIP {
				fl.NamedOnIP = true
				continue
			}
			for _, cp := range dst.Ports {
				if cp.Name == pt.Name {
					if cp.Protocol() == pr {
						c.AddRange(pr, cp.Num, cp.Num)
					}
					break
				}
			}
		case pt.Port == 0:
			c.AddRange(pr, 1, 65535)
		case pt.EndPort != 0:
			c.AddRange(pr, pt.Port, pt.EndPort)
		default:
			c.AddRange(pr, pt.Port, pt.Port)
		}
	}
	return c
}

// NPAllowed: what the NetworkPolicy layer allows for pod in the direction with other (governed==false ⇒ nil).
func (m *Model) NPAllowed(pod, other Peer, ingress bool, fl *Flags) (c *Conn, governed bool) {
	gov := m.Governing(pod, ingress)
	if len(gov) == 0 {
		return nil, false
	}
	dst := other
	if ingress {
		dst = pod
	}
	c = NewConn()
	for _, np := range gov {
		rules := np.Egress
		if ingress {
			rules = np.Ingress
		}
		for ri := range rules {
			if NPPeerMatch(np, &rules[ri], other) {
				c.Or(NPPorts(&rules[ri], dst, fl))
			}
		}
	}
	return c, true
}

func SubjectMatch(s *world.Subject, p Peer) bool {
	if p.IsIP {
		return false
	}
	if s.Namespaces != nil {
		return Match(s.Namespaces, p.NsLabels)
	}
	return Match(s.PodsNs, p.NsLabels) && Match(s.PodsPod, p.Labels)
}

func anpPorts(rule *world.ANPRule, dst Peer) *Conn {
	if !rule.HasPorts {
		return FullConn()
	}
	c := NewConn()
	for _, p := range rule.Ports {
		switch p.Kind {
		case "num":
			c.AddRange(p.Protocol(), p.Port, p.Port)
		case "range":
			c.AddRange(p.Protocol(), p.Port, p.End)
		default:
			for _, cp := range dst.Ports {
				if cp.Name == p.Name {
					c.AddRange(cp.Protocol(), cp.Num, cp.Num)
					break
				}
			}
		}
	}
	return c
}

func anpPeersMatch(rule *world.ANPRule, other Peer) bool {
	for i := range rule.Peers {
		if SubjectMatch(&rule.Peers[i], other) {
			return true
		}
	}
	return false
}

// DirAllowed: the (protocol, port) points allowed for pod in one direction with other, scanning
// ANPs by ascending priority, then the NetworkPolicy layer, then the BANP, exactly as C02 states.
func (m *Model) DirAllowed(pod, other Peer, ingress bool, fl *Flags) *Conn {
	dst := other
	if ingress {
		dst = pod
	}
	undecided := FullConn()
	allowed := NewConn()
	passed := NewConn()
	if !other.IsIP {
		anps := make([]*world.ANP, 0, len(m.W.ANPs))
		for i := range m.W.ANPs {
			anps = append(anps, &m.W.ANPs[i])
		}
		sort.SliceStable(anps, func(i, j int) bool { return anps[i].Priority < anps[j].Priority })
		for _, a := range anps {
			rules := a.Egress
			if ingress {
				rules = a.Ingress
			}
			if len(rules) == 0 || !SubjectMatch(&a.Subject, pod) {
				continue
			}
			for ri := range rules {
				rule := &rules[ri]
				if !anpPeersMatch(rule, other) {
					continue
				}
				hit := anpPorts(rule, dst).And(undecided)
				if hit.IsEmpty() {
					continue
				}
				fl.ByANP = true
				undecided.AndNot(hit)
				switch rule.Action {
				case "Allow":
					allowed.Or(hit)
				case "Pass":
					passed.Or(hit)
				}
			}
		}
	}
	rest := undecided.Or(passed)
	if rest.IsEmpty() {
		return allowed
	}
	if npc, governed := m.NPAllowed(pod, other, ingress, fl); governed {
		fl.ByNP = true
		return allowed.Or(npc.And(rest))
	}
	b := m.W.BANP
	if b != nil && !other.IsIP {
		rules := b.Egress
		if ingress {
			rules = b.Ingress
		}
		if len(rules) > 0 && SubjectMatch(&b.Subject, pod) {
			und := rest.Clone()
			for ri := range rules {
				rule := &rules[ri]
				if !anpPeersMatch(rule, other) {
					continue
				}
				hit := anpPorts(rule, dst).And(und)
				if hit.IsEmpty() {
					continue
				}
				fl.ByBANP = true
				und.AndNot(hit)
				if rule.Action == "Allow" {
					allowed.Or(hit)
				}
			}
			if !und.IsEmpty() {
				fl.ByDefault = true
			}
			return allowed.Or(und)
		}
	}
	fl.ByDefault = true
	return allowed.Or(rest)
}

// Allowed: connectivity from src to dst (two different pods, or a pod and an address).
func (m *Model) Allowed(src, dst Peer, fl *Flags) *Conn {
	var e, i *Conn
	if src.IsIP {
		e = FullConn()
	} else {
		e = m.DirAllowed(src, dst, false, fl)
	}
	if dst.IsIP {
		i = FullConn()
	} else {
		i = m.DirAllowed(dst, src, true, fl)
	}
	return e.And(i)
}

// Atoms partitions [0,2^32) by all CIDR / except boundaries present in the worlds.
func Atoms(ws ...*world.World) [][2]uint32 {
	bounds := map[uint64]bool{0: true, 1 << 32: true}
	add := func(c string) {
		if lo, hi, ok := world.CIDRRange(c); ok {
			bounds[uint64(lo)] = true
			bounds[uint64(hi)+1] = true
		}
	}
	for _, w := range ws {
		for i := range w.NetPols {
			for _, rules := range [][]world.NPRule{w.NetPols[i].Ingress, w.NetPols[i].Egress} {
				for _, r := range rules {
					for _, p := range r.Peers {
						if p.IPBlock != nil {
							add(p.IPBlock.CIDR)
							for _, e := range p.IPBlock.Except {
								add(e)
							}
						}
					}
				}
			}
		}
	}
	bs := make([]uint64, 0, len(bounds))
	for b := range bounds {
		bs = append(bs, b)
	}
	sort.Slice(bs, func(i, j int) bool { return bs[i] < bs[j] })
	out := make([][2]uint32, 0, len(bs))
	for i := 0; i+1 < len(bs); i++ {
		out = append(out, [2]uint32{uint32(bs[i]), uint32(bs[i+1] - 1)})
	}
	return out
}
