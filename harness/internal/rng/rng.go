// Package rng is a tiny deterministic PRNG (splitmix64) so that any case can be regenerated
// from its coordinates (property, seed, index) without running the cases before it.
package rng

type R struct{ s uint64 }

func mix(z uint64) uint64 {
	z = (z ^ (z >> 30)) * 0xbf58476d1ce4e5b9
	z = (z ^ (z >> 27)) * 0x94d049bb133111eb
	return z ^ (z >> 31)
}

func hashStr(s string) uint64 {
	h := uint64(1469598103934665603)
	for i := 0; i < len(s); i++ {
		h ^= uint64(s[i])
		h *= 1099511628211
	}
	return h
}

// New returns the generator of case (prop, seed, idx, stream).
func New(prop string, seed int64, idx int, stream string) *R {
	s := hashStr(prop) ^ mix(uint64(seed)*0x9e3779b97f4a7c15+1) ^ mix(uint64(idx)+0x632be59bd9b4e019) ^ hashStr(stream)*31
	return &R{s: mix(s)}
}

func (r *R) U64() uint64 {
	r.s += 0x9e3779b97f4a7c15
	return mix(r.s)
}

// Intn returns a value in [0,n).
func (r *R) Intn(n int) int {
	if n <= 0 {
		return 0
	}
	return int(r.U64() % uint64(n))
}

// Range returns a value in [lo,hi].
func (r *R) Range(lo, hi int) int { return lo + r.Intn(hi-lo+1) }

func (r *R) Float() float64 { return float64(r.U64()>>11) / float64(1<<53) }

// P is true with probability p.
func (r *R) P(p float64) bool { return r.Float() < p }

func Pick[T any](r *R, xs []T) T { return xs[r.Intn(len(xs))] }

func Shuffle[T any](r *R, xs []T) {
	for i := len(xs) - 1; i > 0; i-- {
		j := r.Intn(i + 1)
		xs[i], xs[j] = xs[j], xs[i]
	}
}

// Fork derives an independent stream.
func (r *R) Fork(tag string) *R { return &R{s: mix(r.U64() ^ hashStr(tag))} }
