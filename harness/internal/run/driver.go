package run

import (
	"bufio"
	"encoding/json"
	"fmt"
	"os"
	"os/exec"
	"path/filepath"
	"runtime"
	"sort"
	"strconv"
	"strings"
	"sync"
	"time"
)

const caseWatchdog = 180 * time.Second

func scratchBase() string {
	if st, err := os.Stat("/dev/shm"); err == nil && st.IsDir() {
		return "/dev/shm"
	}
	return os.TempDir()
}

// Worker runs the cases idx = from, from+stride, ... < n of a check and appends one JSON line per case to out.
func Worker(ck *Check, tier string, seed int64, from, stride, n int, out, journal, bin, root string, race bool) int {
	of, err := os.OpenFile(out, os.O_APPEND|os.O_CREATE|os.O_WRONLY, 0o644)
	if err != nil {
		fmt.Fprintln(os.Stderr, err)
		return 2
	}
	defer of.Close()
	jf, err := os.OpenFile(journal, os.O_APPEND|os.O_CREATE|os.O_WRONLY, 0o644)
	if err != nil {
		fmt.Fprintln(os.Stderr, err)
		return 2
	}
	defer jf.Close()
	known, _ := LoadKnown(root)
	cwd, _ := os.Getwd()
	saved := 0
	for idx := from; idx < n; idx += stride {
		fmt.Fprintf(jf, "START %d\n", idx)
		done := make(chan struct{})
		go func(idx int) {
			select {
			case <-done:
			case <-time.After(caseWatchdog):
				// watchdog: dump goroutines and die; the driver attributes it to the journalled case
				buf := make([]byte, 1<<20)
				nb := runtime.Stack(buf, true)
				_ = os.WriteFile(filepath.Join(cwd, fmt.Sprintf("watchdog-%d.txt", idx)), buf[:nb], 0o644)
				fmt.Fprintf(jf, "WATCHDOG %d\n", idx)
				os.Exit(7)
			}
		}(idx)
		res := RunCase(ck, tier, seed, idx, bin, root, cwd, known, saved < 3, race)
		close(done)
		for _, v := range res.Violations {
			if v.Replay != "" {
				saved++
				break
			}
		}
		b, _ := json.Marshal(res)
		of.Write(append(b, '\n'))
		fmt.Fprintf(jf, "END %d\n", idx)
		// the eval cache appends a debug file into the cwd on every hit
		_ = os.Remove(filepath.Join(cwd, "cacheHitsLog.txt"))
	}
	return 0
}

type shardState struct {
	id     int
	next   int // next index to start from
	stride int
}

// Drive runs a whole check and returns the process exit code.
func Drive(ck *Check, tier string, seed int64, self, bin, root string, workers int, raceSelf string) int {
	start := time.Now()
	n := ck.NumCases(tier, seed)
	if workers > n {
		workers = n
	}
	if workers < 1 {
		workers = 1
	}
	base, err := os.MkdirTemp(scratchBase(), "vcheck-"+ck.ID+"-")
	if err != nil {
		fmt.Fprintln(os.Stderr, "cannot create scratch:", err)
		return 2
	}
	defer os.RemoveAll(base)
	known, _ := LoadKnown(root)
	agg := NewAgg()
	runShards(ck, tier, seed, self, bin, root, workers, n, base, nil, known, agg, "main")
	// secondary sanitizer pass: repeat a slice of the case list under a -race build (race detector + checkptr)
	var san *sanitizerObs
	if tier == "thorough" && ck.RaceSliceCases > 0 && raceSelf != "" {
		if _, err := os.Stat(raceSelf); err == nil {
			san = &sanitizerObs{}
			rn := ck.RaceSliceCases
			if rn > n {
				rn = n
			}
			logBase := filepath.Join(base, "racelog")
			_ = os.MkdirAll(logBase, 0o755)
			ragg := NewAgg()
			runShards(ck, tier, seed, raceSelf, bin, root, workers, rn, base, []string{"VERIF_RACE=1", "GORACE=halt_on_error=0 log_path=" + filepath.Join(logBase, "race")}, known, ragg, "race")
			san.Cases = ragg.Evaluations
			san.Violations = len(ragg.Violations)
			san.Crashes = len(ragg.Crashes)
			files, _ := filepath.Glob(filepath.Join(logBase, "race*"))
			for _, f := range files {
				if b, err := os.ReadFile(f); err == nil {
					san.RaceReports += strings.Count(string(b), "WARNING: DATA RACE")
				}
			}
			for _, c := range ragg.Crashes {
				if strings.Contains(c, "checkptr") {
					san.CheckptrFaults++
				}
			}
			// a violation found only under the race build is a violation all the same
			for _, v := range ragg.Violations {
				v.Detail = "[under -race build] " + v.Detail
				agg.Violations = append(agg.Violations, v)
			}
		}
	}

	wall := time.Since(start).Seconds()
	// verdict
	verdict := 0
	reasons := []string{}
	if len(agg.Violations) > 0 {
		verdict = 1
	}
	if verdict == 0 {
		if agg.Evaluations < n {
			reasons = append(reasons, fmt.Sprintf("only %d of %d cases reported", agg.Evaluations, n))
		}
		if len(agg.NonTrivial) < ck.MinNonTrivial || len(agg.NonTrivial) < 2 {
			reasons = append(reasons, fmt.Sprintf("distinct non-trivial cases %d below floor %d", len(agg.NonTrivial), ck.MinNonTrivial))
		}
		if ck.MinEffectiveShare > 0 && float64(agg.Effective) < ck.MinEffectiveShare*float64(agg.Evaluations) {
			reasons = append(reasons, fmt.Sprintf("effective share %d/%d below floor %.2f", agg.Effective, agg.Evaluations, ck.MinEffectiveShare))
		}
		for ev, min := range ck.RequiredEvents {
			if agg.Events[ev] < min {
				reasons = append(reasons, fmt.Sprintf("deciding event %q observed %d times (< %d)", ev, agg.Events[ev], min))
			}
		}
		if !ck.CrashIsViolation && len(agg.Crashes)*20 > n {
			reasons = append(reasons, fmt.Sprintf("%d cases lost to crashes/watchdog", len(agg.Crashes)))
		}
		if len(agg.Inconclusive)*10 > n {
			reasons = append(reasons, fmt.Sprintf("%d cases inconclusive", len(agg.Inconclusive)))
		}
		if len(reasons) > 0 {
			verdict = 3
		}
	}
	writeEvidence(ck, tier, seed, agg, wall, root, reasons, san)

	// report
	sort.Slice(agg.Violations, func(i, j int) bool { return agg.Violations[i].Case < agg.Violations[j].Case })
	for _, k := range known {
		if k.Property == ck.ID && agg.Known[k.Finding] > 0 {
			fmt.Printf("KNOWN-FINDING: property=%s finding=%s %s (seen %d times in this run)\n", ck.ID, k.Finding, k.Text, agg.Known[k.Finding])
		}
	}
	printed := 0
	for _, v := range agg.Violations {
		if printed < 25 {
			rp := v.Replay
			if rp == "" {
				rp = fmt.Sprintf("%s/replays/%s/%s-%d-%d(not-saved;regenerate:./check.sh replay-case %s %s %d %d)", root, ck.ID, tier, seed, v.Case, ck.ID, tier, seed, v.Case)
			}
			fmt.Printf("VIOLATION property=%s replay=%s\n", ck.ID, rp)
			fmt.Printf("  monitor=%s sig=%s case=%d\n  expected: %s\n  observed: %s\n", v.Monitor, v.Sig, v.Case, oneLine(v.Expected), oneLine(v.Observed))
			if v.Detail != "" {
				fmt.Printf("  detail: %s\n", oneLine(v.Detail))
			}
		}
		printed++
	}
	if len(agg.Violations) > 0 {
		bySig := map[string]int{}
		for _, v := range agg.Violations {
			bySig[v.Sig]++
		}
		for _, k := range sortedKeys(bySig) {
			fmt.Printf("  violations with sig %s: %d\n", k, bySig[k])
		}
	}
	if printed > 25 {
		fmt.Printf("  … %d further violations not printed\n", printed-25)
	}
	for _, c := range agg.Crashes {
		fmt.Printf("CASE-LOST %s\n", oneLine(c))
	}
	for i, c := range agg.Inconclusive {
		if i < 10 {
			fmt.Printf("CASE-INCONCLUSIVE %s\n", oneLine(c))
		}
	}
	fmt.Printf("%s %s seed=%d: cases=%d nontrivial=%d effective=%d violations=%d known=%d inconclusive=%d lost=%d wall=%.1fs\n",
		ck.ID, tier, seed, agg.Evaluations, len(agg.NonTrivial), agg.Effective, len(agg.Violations), sumInts(agg.Known), len(agg.Inconclusive), len(agg.Crashes), wall)
	evs := []string{}
	for k, v := range agg.Events {
		evs = append(evs, fmt.Sprintf("%s=%d", k, v))
	}
	sort.Strings(evs)
	fmt.Printf("  observed: %s\n", strings.Join(evs, " "))
	if verdict == 3 {
		fmt.Printf("INCONCLUSIVE property=%s: %s\n", ck.ID, strings.Join(reasons, "; "))
	}
	return verdict
}

type sanitizerObs struct {
	Cases          int `json:"cases_repeated_under_race_build"`
	RaceReports    int `json:"race_reports"`
	CheckptrFaults int `json:"checkptr_faults"`
	Crashes        int `json:"crashes"`
	Violations     int `json:"violations"`
}

// runShards runs cases 0..n-1 of a check in worker processes (executable exe0) and adds their results to agg.
func runShards(ck *Check, tier string, seed int64, exe0, bin, root string, workers, n int, base string, extraEnv []string, known []Known, agg *Agg, tag string) {
	deadline := time.Now().Add(3 * time.Hour)
	lost := 0
	var mu sync.Mutex
	var wg sync.WaitGroup
	for s := 0; s < workers; s++ {
		wg.Add(1)
		go func(s int) {
			defer wg.Done()
			from := s
			for attempt := 0; from < n && attempt < 50; attempt++ {
				wd := filepath.Join(base, fmt.Sprintf("%s-w%d-%d", tag, s, attempt))
				_ = os.MkdirAll(wd, 0o755)
				out := filepath.Join(wd, "out.jsonl")
				journal := filepath.Join(wd, "journal")
				exe := exe0
				cmd := exec.Command(exe, "worker", ck.ID, tier, strconv.FormatInt(seed, 10), strconv.Itoa(from), strconv.Itoa(workers),
					strconv.Itoa(n), out, journal, bin, root)
				cmd.Dir = wd
				cmd.Env = append(append(os.Environ(), "GOTRACEBACK=all"), extraEnv...)
				logf, _ := os.Create(filepath.Join(wd, "stderr"))
				cmd.Stdout = logf
				cmd.Stderr = logf
				_ = cmd.Start()
				waitCh := make(chan error, 1)
				go func() { waitCh <- cmd.Wait() }()
				var werr error
				select {
				case werr = <-waitCh:
				case <-time.After(time.Until(deadline)):
					_ = cmd.Process.Kill()
					werr = fmt.Errorf("global deadline")
					<-waitCh
				}
				logf.Close()
				// collect results
				lastEnd := -1
				if f, e := os.Open(out); e == nil {
					sc := bufio.NewScanner(f)
					sc.Buffer(make([]byte, 1<<20), 64<<20)
					for sc.Scan() {
						var r CaseResult
						if json.Unmarshal(sc.Bytes(), &r) == nil {
							mu.Lock()
							agg.Add(&r, known, ck.ID)
							mu.Unlock()
							lastEnd = r.Idx
						}
					}
					f.Close()
				}
				if werr == nil {
					_ = os.RemoveAll(wd)
					return
				}
				// worker died: find the journalled case
				crashed := from
				if lastEnd >= 0 {
					crashed = lastEnd + workers
				}
				watchdog := false
				if jb, e := os.ReadFile(journal); e == nil {
					for _, l := range strings.Split(string(jb), "\n") {
						if strings.HasPrefix(l, "WATCHDOG ") {
							watchdog = true
						}
					}
				}
				if crashed < n {
					eb, _ := os.ReadFile(filepath.Join(wd, "stderr"))
					tail := string(eb)
					if len(tail) > 3000 {
						tail = tail[:1500] + "\n…\n" + tail[len(tail)-1500:]
					}
					r := &CaseResult{Idx: crashed}
					what := "worker process died"
					if watchdog {
						what = "watchdog expired"
					}
					if ck.CrashIsViolation {
						rp := filepath.Join(root, "replays", ck.ID, fmt.Sprintf("%s-%d-%d", tier, seed, crashed))
						_ = os.MkdirAll(rp, 0o755)
						cj := map[string]interface{}{"property": ck.ID, "tier": tier, "seed": seed, "index": crashed, "crash": tail}
						b, _ := json.MarshalIndent(cj, "", " ")
						_ = os.WriteFile(filepath.Join(rp, "case.json"), b, 0o644)
						r.Violations = []Violation{{Monitor: "process", Sig: "process:any:died", Expected: "termination with result or error",
							Observed: what + ": " + firstLines(tail, 6), Case: crashed, Replay: rp}}
					} else {
						r.Crash = what + ": " + firstLines(tail, 12)
					}
					mu.Lock()
					agg.Add(r, known, ck.ID)
					lost++
					mu.Unlock()
				}
				from = crashed + workers
				_ = os.RemoveAll(wd)
			}
		}(s)
	}
	wg.Wait()

	_ = lost
}

func sumInts(m map[string]int) int {
	n := 0
	for _, v := range m {
		n += v
	}
	return n
}

func oneLine(s string) string {
	s = strings.ReplaceAll(s, "\n", " ⏎ ")
	if len(s) > 1200 {
		s = s[:1200] + "…"
	}
	return s
}

func firstLines(s string, n int) string {
	ls := strings.Split(s, "\n")
	if len(ls) > n {
		ls = ls[:n]
	}
	return strings.Join(ls, " | ")
}

func writeEvidence(ck *Check, tier string, seed int64, agg *Agg, wall float64, root string, reasons []string, san *sanitizerObs) {
	cov := map[string]interface{}{
		"evaluations":         agg.Evaluations,
		"distinct_nontrivial": len(agg.NonTrivial),
		"rule":                ck.Rule,
		"effective":           agg.Effective,
		"features":            agg.Features,
		"events":              agg.Events,
		"known_findings_seen": agg.Known,
		"inconclusive":        len(agg.Inconclusive),
		"cases_lost":          len(agg.Crashes),
		"discarded_harness":   agg.Discarded,
		"exhaustive":          false,
	}
	distinct := map[string]int{}
	for k, s := range agg.Sets {
		distinct[k] = len(s)
	}
	cov["distinct"] = distinct
	if ck.Explanation != "" {
		cov["explanation"] = ck.Explanation
	}
	samples := []interface{}{}
	for _, s := range agg.Samples {
		samples = append(samples, s)
	}
	if len(samples) == 0 {
		samples = append(samples, "no sample recorded")
	}
	cov["samples"] = samples
	if len(reasons) > 0 {
		cov["inconclusive_reasons"] = reasons
	}
	if san != nil {
		cov["sanitizer"] = san
	}
	ev := map[string]interface{}{
		"property_id": ck.ID,
		"tier":        tier,
		"seed":        seed,
		"level":       ck.Level,
		"coverage":    cov,
		"assumptions": ck.Assumptions,
		"wall_s":      wall,
		"violations":  len(agg.Violations),
	}
	b, _ := json.MarshalIndent(ev, "", " ")
	edir := filepath.Join(root, "evidence")
	if d := os.Getenv("VERIF_EVIDENCE_DIR"); d != "" { // runs against another checkout (VERIF_REPO) never touch the registered evidence
		edir = d
	}
	_ = os.MkdirAll(edir, 0o755)
	_ = os.WriteFile(filepath.Join(edir, ck.ID+".json"), b, 0o644)
}
