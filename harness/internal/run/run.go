// Package run is the case framework: a check is a fixed, (tier, seed)-determined list of cases; the driver
// shards it over worker processes, journals every case before it touches the real code, aggregates what the
// monitors observed, matches violations against the committed known findings and writes the evidence file.
package run

import (
	"encoding/json"
	"fmt"
	"os"
	"path/filepath"
	"runtime/debug"
	"sort"
	"strings"

	"verif/harness/internal/rng"
)

// Violation is one refuting observation.
type Violation struct {
	Monitor  string `json:"monitor"`
	Sig      string `json:"sig"` // <monitor>:<input-pattern>:<discrepancy-shape>, matched against KNOWN_FINDINGS.txt
	Expected string `json:"expected"`
	Observed string `json:"observed"`
	Detail   string `json:"detail,omitempty"`
	Replay   string `json:"replay,omitempty"`
	Case     int    `json:"case"`
}

// CaseResult is what one case reports back.
type CaseResult struct {
	Idx          int                 `json:"idx"`
	Name         string              `json:"name,omitempty"`
	Hash         string              `json:"hash,omitempty"`
	NonTrivial   bool                `json:"nontrivial,omitempty"`
	Effective    bool                `json:"effective,omitempty"`
	Features     []string            `json:"features,omitempty"`
	Events       map[string]int64    `json:"events,omitempty"`
	Sets         map[string][]string `json:"sets,omitempty"` // named sets whose union size is reported (distinct things seen)
	Violations   []Violation         `json:"violations,omitempty"`
	Inconclusive string              `json:"inconclusive,omitempty"`
	Sample       json.RawMessage     `json:"sample,omitempty"`
	Crash        string              `json:"crash,omitempty"` // worker died / harness panic while running this case
	Discarded    string              `json:"discarded,omitempty"`
}

func (r *CaseResult) Ev(name string, n int64) {
	if r.Events == nil {
		r.Events = map[string]int64{}
	}
	r.Events[name] += n
}

func (r *CaseResult) AddSet(name, member string) {
	if r.Sets == nil {
		r.Sets = map[string][]string{}
	}
	for _, m := range r.Sets[name] {
		if m == member {
			return
		}
	}
	r.Sets[name] = append(r.Sets[name], member)
}

func (r *CaseResult) Feat(fs ...string) {
	for _, f := range fs {
		dup := false
		for _, x := range r.Features {
			if x == f {
				dup = true
			}
		}
		if !dup {
			r.Features = append(r.Features, f)
		}
	}
}

func (r *CaseResult) Violate(monitor, sig, expected, observed, detail string) {
	if len(expected) > 2000 {
		expected = expected[:2000] + "…"
	}
	if len(observed) > 2000 {
		observed = observed[:2000] + "…"
	}
	if len(detail) > 6000 {
		detail = detail[:6000] + "…"
	}
	r.Violations = append(r.Violations, Violation{Monitor: monitor, Sig: sig, Expected: expected, Observed: observed, Detail: detail, Case: r.Idx})
}

func (r *CaseResult) SetSample(v interface{}) {
	b, err := json.Marshal(v)
	if err == nil {
		r.Sample = b
	}
}

// Ctx is what a case gets.
type Ctx struct {
	Prop    string
	Tier    string
	Seed    int64
	Idx     int
	Bin     string // path of the k8snetpolicy binary built from the tree under test
	Root    string // /verif
	Repo    string // /repo
	scratch string
	Res     *CaseResult
	Race    bool // worker built with -race (secondary sanitizer pass)
}

func (c *Ctx) R(stream string) *rng.R { return rng.New(c.Prop, c.Seed, c.Idx, stream) }

// Dir returns (creating it) a scratch directory of this case; everything below it is saved on a violation.
func (c *Ctx) Dir(name string) string {
	d := filepath.Join(c.scratch, name)
	_ = os.MkdirAll(d, 0o755)
	return d
}

func (c *Ctx) Scratch() string { return c.scratch }

// Check is one property's monitor + workload.
type Check struct {
	ID          string
	Level       string // evidence level
	Rule        string
	Assumptions []string
	NumCases    func(tier string, seed int64) int
	Run         func(c *Ctx)
	// floors below which the run is inconclusive
	MinNonTrivial     int
	MinEffectiveShare float64
	// RequiredEvents must each have been observed at least that many times (quick tier floor)
	RequiredEvents map[string]int64
	NeedsBinary    bool
	// CrashIsViolation: a dying worker / watchdog expiry refutes the property (C12 only)
	CrashIsViolation bool
	// RaceSliceCases: thorough tier only - the first N cases are repeated under a -race (+checkptr) build of the worker
	RaceSliceCases int
	Explanation    string
}

var Registry = map[string]*Check{}

func Register(c *Check) { Registry[c.ID] = c }

// ---- known findings

type Known struct {
	Property string
	Finding  string
	Sig      string
	Text     string
}

type Fixed struct {
	Property string
	Commit   string
	Text     string
}

func LoadKnown(root string) ([]Known, []Fixed) {
	b, err := os.ReadFile(filepath.Join(root, "KNOWN_FINDINGS.txt"))
	if err != nil {
		return nil, nil
	}
	var ks []Known
	var fs []Fixed
	for _, line := range strings.Split(string(b), "\n") {
		line = strings.TrimSpace(line)
		if line == "" || strings.HasPrefix(line, "#") {
			continue
		}
		fields := strings.Fields(line)
		kv := map[string]string{}
		rest := []string{}
		for _, f := range fields[1:] {
			if i := strings.IndexByte(f, '='); i > 0 && len(rest) == 0 {
				kv[f[:i]] = f[i+1:]
			} else {
				rest = append(rest, f)
			}
		}
		switch fields[0] {
		case "known:":
			ks = append(ks, Known{Property: kv["property"], Finding: kv["finding"], Sig: kv["sig"], Text: strings.Join(rest, " ")})
		case "fixed:":
			f := Fixed{Property: kv["property"]}
			if len(rest) > 0 {
				f.Commit = rest[0]
				f.Text = strings.Join(rest[1:], " ")
			}
			fs = append(fs, f)
		}
	}
	return ks, fs
}

func MatchKnown(ks []Known, prop, sig string) *Known {
	for i := range ks {
		if ks[i].Property == prop && ks[i].Sig == sig && sig != "" {
			return &ks[i]
		}
	}
	return nil
}

// ---- running one case (worker side and replay)

// RunCase runs one case under recover, with its own scratch directory; saves a replay on unknown violations.
func RunCase(ck *Check, tier string, seed int64, idx int, bin, root, scratchBase string, known []Known, saveReplay bool, race bool) *CaseResult {
	res := &CaseResult{Idx: idx}
	scratch := filepath.Join(scratchBase, fmt.Sprintf("case-%d", idx))
	_ = os.RemoveAll(scratch)
	_ = os.MkdirAll(scratch, 0o755)
	ctx := &Ctx{Prop: ck.ID, Tier: tier, Seed: seed, Idx: idx, Bin: bin, Root: root, Repo: repoDir(), scratch: scratch, Res: res, Race: race}
	func() {
		defer func() {
			if r := recover(); r != nil {
				res.Crash = fmt.Sprintf("harness panic: %v\n%s", r, debug.Stack())
			}
		}()
		ck.Run(ctx)
	}()
	if saveReplay {
		unknown := false
		for _, v := range res.Violations {
			if MatchKnown(known, ck.ID, v.Sig) == nil {
				unknown = true
			}
		}
		if unknown {
			rp := filepath.Join(root, "replays", ck.ID, fmt.Sprintf("%s-%d-%d", tier, seed, idx))
			_ = os.RemoveAll(rp)
			_ = os.MkdirAll(filepath.Dir(rp), 0o755)
			if err := copyTree(scratch, rp); err == nil {
				cj := map[string]interface{}{"property": ck.ID, "tier": tier, "seed": seed, "index": idx, "name": res.Name,
					"features": res.Features, "violations": res.Violations}
				b, _ := json.MarshalIndent(cj, "", " ")
				_ = os.WriteFile(filepath.Join(rp, "case.json"), b, 0o644)
				for i := range res.Violations {
					res.Violations[i].Replay = rp
				}
			}
		}
	}
	_ = os.RemoveAll(scratch)
	return res
}

func copyTree(src, dst string) error {
	return filepath.Walk(src, func(p string, info os.FileInfo, err error) error {
		if err != nil {
			return nil
		}
		rel, _ := filepath.Rel(src, p)
		t := filepath.Join(dst, rel)
		if info.IsDir() {
			return os.MkdirAll(t, 0o755)
		}
		if info.Mode()&os.ModeSymlink != 0 {
			l, _ := os.Readlink(p)
			return os.Symlink(l, t)
		}
		if info.Size() > 4<<20 {
			return os.WriteFile(t+".truncated", []byte(fmt.Sprintf("%d bytes omitted", info.Size())), 0o644)
		}
		b, err := os.ReadFile(p)
		if err != nil {
			return nil
		}
		return os.WriteFile(t, b, 0o644)
	})
}

// ---- aggregation

type Agg struct {
	Evaluations  int
	NonTrivial   map[string]bool
	Effective    int
	Features     map[string]int
	Events       map[string]int64
	Sets         map[string]map[string]bool
	Violations   []Violation
	Known        map[string]int
	Inconclusive []string
	Crashes      []string
	Discarded    int
	Samples      []json.RawMessage
}

func NewAgg() *Agg {
	return &Agg{NonTrivial: map[string]bool{}, Features: map[string]int{}, Events: map[string]int64{}, Sets: map[string]map[string]bool{}, Known: map[string]int{}}
}

func (a *Agg) Add(r *CaseResult, known []Known, prop string) {
	a.Evaluations++
	if r.Discarded != "" {
		a.Discarded++
	}
	if r.NonTrivial {
		h := r.Hash
		if h == "" {
			h = fmt.Sprintf("case-%d", r.Idx)
		}
		a.NonTrivial[h] = true
	}
	if r.Effective {
		a.Effective++
	}
	for _, f := range r.Features {
		a.Features[f]++
	}
	for k, v := range r.Events {
		a.Events[k] += v
	}
	for k, ms := range r.Sets {
		if a.Sets[k] == nil {
			a.Sets[k] = map[string]bool{}
		}
		for _, m := range ms {
			a.Sets[k][m] = true
		}
	}
	for _, v := range r.Violations {
		if k := MatchKnown(known, prop, v.Sig); k != nil {
			a.Known[k.Finding]++
		} else {
			a.Violations = append(a.Violations, v)
		}
	}
	if r.Inconclusive != "" {
		a.Inconclusive = append(a.Inconclusive, fmt.Sprintf("case %d: %s", r.Idx, r.Inconclusive))
	}
	if r.Crash != "" {
		a.Crashes = append(a.Crashes, fmt.Sprintf("case %d: %s", r.Idx, r.Crash))
	}
	if r.Sample != nil && len(a.Samples) < 3 && (r.NonTrivial || len(a.Samples) == 0) {
		a.Samples = append(a.Samples, r.Sample)
	}
}

func sortedKeys(m map[string]int) []string {
	ks := make([]string, 0, len(m))
	for k := range m {
		ks = append(ks, k)
	}
	sort.Strings(ks)
	return ks
}

func repoDir() string {
	if d := os.Getenv("VERIF_REPO"); d != "" {
		return d
	}
	return "/repo"
}
