package world

import (
	"fmt"
	"os"
	"path/filepath"
	"strconv"
	"strings"

	"verif/harness/internal/rng"
)

// Doc is one emitted YAML document.
type Doc struct {
	Kind string
	Ns   string
	Name string
	YAML string
}

// q quotes a scalar (always: unquoted y/n/yes/on would become YAML-1.1 booleans).
func q(s string) string { return strconv.Quote(s) }

func mapYAML(m map[string]string) string {
	parts := []string{}
	for _, k := range SortedKeys(m) {
		parts = append(parts, q(k)+": "+q(m[k]))
	}
	return "{" + strings.Join(parts, ", ") + "}"
}

func SelYAML(s *Sel) string {
	if s.IsEmpty() {
		return "{}"
	}
	out := []string{}
	if len(s.ML) > 0 {
		out = append(out, "matchLabels: "+mapYAML(s.ML))
	}
	if len(s.ME) > 0 {
		ex := []string{}
		for _, r := range s.ME {
			if r.Op == "In" || r.Op == "NotIn" {
				vs := make([]string, len(r.Vals))
				for i, v := range r.Vals {
					vs[i] = q(v)
				}
				ex = append(ex, fmt.Sprintf("{key: %s, operator: %s, values: [%s]}", q(r.Key), r.Op, strings.Join(vs, ", ")))
			} else {
				ex = append(ex, fmt.Sprintf("{key: %s, operator: %s}", q(r.Key), r.Op))
			}
		}
		out = append(out, "matchExpressions: ["+strings.Join(ex, ", ")+"]")
	}
	return "{" + strings.Join(out, ", ") + "}"
}

func cportsYAML(ps []CPort) string {
	parts := []string{}
	for _, p := range ps {
		s := fmt.Sprintf("{containerPort: %d", p.Num)
		if p.Proto != "" {
			s += ", protocol: " + p.Proto
		}
		if p.Name != "" {
			s += ", name: " + q(p.Name)
		}
		parts = append(parts, s+"}")
	}
	return "[" + strings.Join(parts, ", ") + "]"
}

// podSpecYAML: one container holding all ports, or - for three or more ports, and for two ports when their count is even - several
// containers sharing them (the ports of a pod are the ports of ALL its containers; which container declares a port means nothing)
func podSpecYAML(ind string, ports []CPort) string {
	one := func(name string, ps []CPort) string {
		return ind + "- name: " + q(name) + "\n" + ind + "  image: \"img\"\n" + ind + "  ports: " + cportsYAML(ps) + "\n"
	}
	if len(ports) >= 2 && (len(ports) >= 3 || ports[0].Num%2 == 0) {
		cut := (len(ports) + 1) / 2
		return ind + "containers:\n" + one("c", ports[:cut]) + one("sidecar", ports[cut:]) + one("idle", nil)
	}
	return ind + "containers:\n" + one("c", ports)
}

func workloadDocs(w *Workload) []Doc {
	lab := mapYAML(w.Labels)
	objLab := ""
	if len(w.ObjLabels) > 0 {
		objLab = ", labels: " + mapYAML(w.ObjLabels)
	}
	meta := fmt.Sprintf("metadata: {name: %s, namespace: %s%s}\n", q(w.Name), q(w.Ns), objLab)
	if w.OmitNs {
		meta = fmt.Sprintf("metadata: {name: %s%s}\n", q(w.Name), objLab)
	}
	rep := ""
	if w.Replicas != nil {
		rep = fmt.Sprintf("  replicas: %d\n", *w.Replicas)
	}
	tmpl := func(ind string) string {
		return ind + "template:\n" + ind + "  metadata: {labels: " + lab + "}\n" + ind + "  spec:\n" + podSpecYAML(ind+"    ", w.Ports)
	}
	mk := func(y string) []Doc { return []Doc{{Kind: w.Kind, Ns: w.Ns, Name: w.Name, YAML: y}} }
	switch w.Kind {
	case KDeployment, KReplicaSet, KStatefulSet:
		extra := ""
		if w.Kind == KStatefulSet {
			extra = "  serviceName: \"svc\"\n"
		}
		return mk("apiVersion: apps/v1\nkind: " + w.Kind + "\n" + meta + "spec:\n" + rep + extra + "  selector: {matchLabels: " + lab + "}\n" + tmpl("  "))
	case KDaemonSet:
		return mk("apiVersion: apps/v1\nkind: DaemonSet\n" + meta + "spec:\n  selector: {matchLabels: " + lab + "}\n" + tmpl("  "))
	case KJob:
		par := ""
		if w.Replicas != nil {
			par = fmt.Sprintf("  parallelism: %d\n", *w.Replicas)
		}
		return mk("apiVersion: batch/v1\nkind: Job\n" + meta + "spec:\n" + par + tmpl("  "))
	case KCronJob:
		jtMeta := ""
		if len(w.ObjLabels) > 0 { // labels of the Jobs the CronJob creates - not of their pods
			jtMeta = "    metadata: {labels: " + mapYAML(w.ObjLabels) + "}\n"
		}
		return mk("apiVersion: batch/v1\nkind: CronJob\n" + meta + "spec:\n  schedule: \"* * * * *\"\n  jobTemplate:\n" + jtMeta + "    spec:\n" + tmpl("      "))
	case KRC:
		return mk("apiVersion: v1\nkind: ReplicationController\n" + meta + "spec:\n" + rep + "  selector: " + lab + "\n" + tmpl("  "))
	case KPod:
		return []Doc{{Kind: "Pod", Ns: w.Ns, Name: w.Name, YAML: podYAML(w, w.Name, "")}}
	case KOwnedPods:
		n := w.NPods
		if n <= 0 {
			n = 2
		}
		ok := w.PeerKind()
		api := "apps/v1"
		switch ok {
		case KJob, KCronJob:
			api = "batch/v1"
		case KRC:
			api = "v1"
		}
		ctrlFor := func(api string) string {
			return fmt.Sprintf("  - {apiVersion: %s, kind: %s, name: %s, uid: \"u-%s\", controller: true}\n", q(api), ok, q(w.Name), w.Name)
		}
		ctrl := ctrlFor(api)
		oldAPI := map[string]string{"apps/v1": "extensions/v1beta1", "batch/v1": "batch/v1beta1", "v1": "v1"}[api]
		extraFalse := "  - {apiVersion: \"v1\", kind: ConfigMap, name: \"some-other-owner\", uid: \"u-other\", controller: false}\n"
		extraOmitted := "  - {apiVersion: \"v1\", kind: ConfigMap, name: \"some-other-owner\", uid: \"u-other\"}\n"
		owner := "  ownerReferences:\n"
		switch w.ExtraOwners {
		case "before-false":
			owner += extraFalse + ctrl
		case "after-false":
			owner += ctrl + extraFalse
		case "before-omitted":
			owner += extraOmitted + ctrl
		case "after-omitted":
			owner += ctrl + extraOmitted
		case "both-false":
			owner += extraFalse + ctrl + extraFalse
		default:
			owner += ctrl
		}
		docs := []Doc{}
		for i := 0; i < n; i++ {
			pn := fmt.Sprintf("%s-x%d", w.Name, i)
			pw := w
			if w.PerPodLabel != "" {
				cp := *w
				cp.Labels = map[string]string{w.PerPodLabel: pn}
				for k, v := range w.Labels {
					cp.Labels[k] = v
				}
				pw = &cp
			}
			po := owner
			if w.MixedOwnerAPI && i%2 == 1 {
				po = strings.Replace(owner, ctrl, ctrlFor(oldAPI), 1)
			}
			docs = append(docs, Doc{Kind: "Pod", Ns: w.Ns, Name: pn, YAML: podYAML(pw, pn, po)})
		}
		return docs
	}
	return nil
}

func podYAML(w *Workload, name, owner string) string {
	host := w.HostIP
	if host == "" {
		host = "192.168.49.2"
	}
	ip := w.PodIP
	if ip == "" {
		ip = "10.244.0.7"
	}
	nsLine := "\n  namespace: " + q(w.Ns)
	if w.OmitNs {
		nsLine = ""
	}
	return "apiVersion: v1\nkind: Pod\nmetadata:\n  name: " + q(name) + nsLine + "\n  labels: " + mapYAML(w.Labels) + "\n" + owner +
		"spec:\n" + podSpecYAML("  ", w.Ports) + podStatusYAML(w, host, ip)
}

func podStatusYAML(w *Workload, host, ip string) string {
	if w.Pending {
		return "status: {phase: Pending}\n"
	}
	return "status:\n  hostIP: " + q(host) + "\n  podIP: " + q(ip) + "\n  podIPs: [{ip: " + q(ip) + "}]\n"
}

func npPortYAML(p NPPort) string {
	f := []string{}
	if p.Proto != "" {
		f = append(f, "protocol: "+p.Proto)
	}
	if p.Name != "" {
		f = append(f, "port: "+q(p.Name))
	} else if p.Port != 0 {
		f = append(f, fmt.Sprintf("port: %d", p.Port))
	}
	if p.EndPort != 0 {
		f = append(f, fmt.Sprintf("endPort: %d", p.EndPort))
	}
	return "{" + strings.Join(f, ", ") + "}"
}

func npPeerYAML(p NPPeer) string {
	if p.IPBlock != nil {
		s := "{ipBlock: {cidr: " + q(p.IPBlock.CIDR)
		if len(p.IPBlock.Except) > 0 {
			ex := make([]string, len(p.IPBlock.Except))
			for i, e := range p.IPBlock.Except {
				ex[i] = q(e)
			}
			s += ", except: [" + strings.Join(ex, ", ") + "]"
		}
		return s + "}}"
	}
	f := []string{}
	if p.PodSel != nil {
		f = append(f, "podSelector: "+SelYAML(p.PodSel))
	}
	if p.NsSel != nil {
		f = append(f, "namespaceSelector: "+SelYAML(p.NsSel))
	}
	return "{" + strings.Join(f, ", ") + "}"
}

func NetPolYAML(n *NetPol) string {
	nsPart := ", namespace: " + q(n.Ns)
	if n.OmitNs {
		nsPart = ""
	}
	s := "apiVersion: networking.k8s.io/v1\nkind: NetworkPolicy\nmetadata: {name: " + q(n.Name) + nsPart + "}\nspec:\n  podSelector: " + SelYAML(&n.PodSel) + "\n"
	if n.HasTypes {
		s += "  policyTypes: [" + strings.Join(n.PolicyTypes, ", ") + "]\n"
	}
	for di, rules := range [][]NPRule{n.Ingress, n.Egress} {
		if len(rules) == 0 {
			dk := []string{"ingress", "egress"}[di]
			switch n.EmptySpelling {
			case "list":
				s += "  " + dk + ": []\n"
			case "null":
				s += "  " + dk + ": null\n"
			}
			continue
		}
		key := "from"
		if di == 0 {
			s += "  ingress:\n"
		} else {
			s += "  egress:\n"
			key = "to"
		}
		for _, r := range rules {
			items := []string{}
			if len(r.Peers) > 0 {
				ps := make([]string, len(r.Peers))
				for i, p := range r.Peers {
					ps[i] = npPeerYAML(p)
				}
				items = append(items, key+": ["+strings.Join(ps, ", ")+"]")
			}
			if len(r.Ports) > 0 {
				ps := make([]string, len(r.Ports))
				for i, p := range r.Ports {
					ps[i] = npPortYAML(p)
				}
				items = append(items, "ports: ["+strings.Join(ps, ", ")+"]")
			}
			s += "  - {" + strings.Join(items, ", ") + "}\n"
		}
	}
	return s
}

func subjYAML(s Subject) string {
	if s.Namespaces != nil {
		return "{namespaces: " + SelYAML(s.Namespaces) + "}"
	}
	return "{pods: {namespaceSelector: " + SelYAML(s.PodsNs) + ", podSelector: " + SelYAML(s.PodsPod) + "}}"
}

func anpRulesYAML(rules []ANPRule, key string) string {
	s := ""
	for _, r := range rules {
		ps := make([]string, len(r.Peers))
		for i, p := range r.Peers {
			ps[i] = subjYAML(p)
		}
		s += "  - action: " + r.Action + "\n"
		if r.Name != "" {
			s += "    name: " + q(r.Name) + "\n"
		}
		s += "    " + key + ": [" + strings.Join(ps, ", ") + "]\n"
		if r.HasPorts {
			pp := []string{}
			for _, p := range r.Ports {
				pr := ""
				if p.Proto != "" {
					pr = "protocol: " + p.Proto + ", "
				}
				switch p.Kind {
				case "num":
					pp = append(pp, fmt.Sprintf("{portNumber: {%sport: %d}}", pr, p.Port))
				case "range":
					pp = append(pp, fmt.Sprintf("{portRange: {%sstart: %d, end: %d}}", pr, p.Port, p.End))
				default:
					pp = append(pp, "{namedPort: "+q(p.Name)+"}")
				}
			}
			s += "    ports: [" + strings.Join(pp, ", ") + "]\n"
		}
	}
	return s
}

func ANPYAML(a *ANP) string {
	s := "apiVersion: policy.networking.k8s.io/v1alpha1\nkind: AdminNetworkPolicy\nmetadata: {name: " + q(a.Name) + "}\nspec:\n" +
		fmt.Sprintf("  priority: %d\n", a.Priority) + "  subject: " + subjYAML(a.Subject) + "\n"
	if len(a.Ingress) > 0 {
		s += "  ingress:\n" + anpRulesYAML(a.Ingress, "from")
	}
	if len(a.Egress) > 0 {
		s += "  egress:\n" + anpRulesYAML(a.Egress, "to")
	}
	return s
}

func BANPYAML(b *BANP) string {
	s := "apiVersion: policy.networking.k8s.io/v1alpha1\nkind: BaselineAdminNetworkPolicy\nmetadata: {name: " + q(b.Name) + "}\nspec:\n  subject: " + subjYAML(b.Subject) + "\n"
	if len(b.Ingress) > 0 {
		s += "  ingress:\n" + anpRulesYAML(b.Ingress, "from")
	}
	if len(b.Egress) > 0 {
		s += "  egress:\n" + anpRulesYAML(b.Egress, "to")
	}
	return s
}

func serviceYAML(sv *Service) string {
	s := "apiVersion: v1\nkind: Service\nmetadata: {name: " + q(sv.Name) + ", namespace: " + q(sv.Ns) + "}\nspec:\n"
	if sv.Selector != nil {
		s += "  selector: " + mapYAML(sv.Selector) + "\n"
	}
	pp := []string{}
	for _, p := range sv.Ports {
		f := []string{}
		if p.Name != "" {
			f = append(f, "name: "+q(p.Name))
		}
		f = append(f, fmt.Sprintf("port: %d", p.Port))
		if p.TargetName != "" {
			f = append(f, "targetPort: "+q(p.TargetName))
		} else if p.TargetNum != 0 {
			f = append(f, fmt.Sprintf("targetPort: %d", p.TargetNum))
		}
		if p.Proto != "" {
			f = append(f, "protocol: "+p.Proto)
		}
		pp = append(pp, "{"+strings.Join(f, ", ")+"}")
	}
	s += "  ports: [" + strings.Join(pp, ", ") + "]\n"
	return s
}

func backendYAML(b Backend) string {
	port := ""
	if b.PortName != "" {
		port = "name: " + q(b.PortName)
	} else {
		port = fmt.Sprintf("number: %d", b.PortNum)
	}
	return "{service: {name: " + q(b.Svc) + ", port: {" + port + "}}}"
}

func ingressYAML(in *Ingress) string {
	s := "apiVersion: networking.k8s.io/v1\nkind: Ingress\nmetadata: {name: " + q(in.Name) + ", namespace: " + q(in.Ns) + "}\nspec:\n"
	if in.Default != nil {
		s += "  defaultBackend: " + backendYAML(*in.Default) + "\n"
	}
	if len(in.Rules) > 0 {
		s += "  rules:\n"
		for ri, r := range in.Rules {
			s += fmt.Sprintf("  - host: \"h%d.example.com\"\n    http:\n      paths:\n", ri)
			for pi, b := range r {
				s += fmt.Sprintf("      - {path: \"/p%d\", pathType: Prefix, backend: %s}\n", pi, backendYAML(b))
			}
		}
	}
	return s
}

func routeYAML(r *Route) string {
	s := "apiVersion: route.openshift.io/v1\nkind: Route\nmetadata: {name: " + q(r.Name) + ", namespace: " + q(r.Ns) + "}\nspec:\n  host: \"r.example.com\"\n" +
		"  to: {kind: Service, name: " + q(r.To) + ", weight: 100}\n"
	if len(r.Alternates) > 0 {
		a := make([]string, len(r.Alternates))
		for i, x := range r.Alternates {
			a[i] = "{kind: Service, name: " + q(x) + ", weight: 10}"
		}
		s += "  alternateBackends: [" + strings.Join(a, ", ") + "]\n"
	}
	if r.TargetName != "" {
		s += "  port: {targetPort: " + q(r.TargetName) + "}\n"
	} else if r.TargetNum != 0 {
		s += fmt.Sprintf("  port: {targetPort: %d}\n", r.TargetNum)
	}
	return s
}

// Docs renders the world as a list of documents in canonical order.
func (w *World) Docs() []Doc {
	docs := []Doc{}
	for i := range w.Namespaces {
		ns := &w.Namespaces[i]
		if ns.HasObj {
			docs = append(docs, Doc{Kind: "Namespace", Name: ns.Name,
				YAML: "apiVersion: v1\nkind: Namespace\nmetadata:\n  name: " + q(ns.Name) + "\n  labels: " + mapYAML(ns.Labels) + "\n"})
		}
	}
	for i := range w.Workloads {
		docs = append(docs, workloadDocs(&w.Workloads[i])...)
	}
	for i := range w.NetPols {
		docs = append(docs, Doc{Kind: "NetworkPolicy", Ns: w.NetPols[i].Ns, Name: w.NetPols[i].Name, YAML: NetPolYAML(&w.NetPols[i])})
	}
	for i := range w.ANPs {
		docs = append(docs, Doc{Kind: "AdminNetworkPolicy", Name: w.ANPs[i].Name, YAML: ANPYAML(&w.ANPs[i])})
	}
	if w.BANP != nil {
		docs = append(docs, Doc{Kind: "BaselineAdminNetworkPolicy", Name: w.BANP.Name, YAML: BANPYAML(w.BANP)})
	}
	for i := range w.Services {
		docs = append(docs, Doc{Kind: "Service", Ns: w.Services[i].Ns, Name: w.Services[i].Name, YAML: serviceYAML(&w.Services[i])})
	}
	for i := range w.Ingresses {
		docs = append(docs, Doc{Kind: "Ingress", Ns: w.Ingresses[i].Ns, Name: w.Ingresses[i].Name, YAML: ingressYAML(&w.Ingresses[i])})
	}
	for i := range w.Routes {
		docs = append(docs, Doc{Kind: "Route", Ns: w.Routes[i].Ns, Name: w.Routes[i].Name, YAML: routeYAML(&w.Routes[i])})
	}
	return docs
}

// Layout kinds for WriteDocs.
const (
	LayoutOneFile  = "onefile"
	LayoutPerDoc   = "perdoc"
	LayoutRandom   = "random"
	LayoutNested   = "nested"
	LayoutCanonial = "canonical"
)

// WriteDocs writes docs into dir using a layout. r may be nil for canonical single file.
func WriteDocs(dir string, docs []Doc, layout string, r *rng.R) error {
	if err := os.MkdirAll(dir, 0o755); err != nil {
		return err
	}
	ds := append([]Doc(nil), docs...)
	if r != nil && layout != LayoutCanonial {
		rng.Shuffle(r, ds)
	}
	write := func(rel string, group []Doc) error {
		p := filepath.Join(dir, rel)
		if err := os.MkdirAll(filepath.Dir(p), 0o755); err != nil {
			return err
		}
		parts := make([]string, len(group))
		for i, d := range group {
			parts[i] = d.YAML
		}
		return os.WriteFile(p, []byte(strings.Join(parts, "---\n")), 0o644)
	}
	switch layout {
	case LayoutOneFile, LayoutCanonial:
		return write("all.yaml", ds)
	case LayoutPerDoc:
		for i, d := range ds {
			name := fmt.Sprintf("f%02d.yaml", i)
			if r != nil {
				name = fmt.Sprintf("%c%c-%d.%s", 'a'+r.Intn(26), 'a'+r.Intn(26), i, rng.Pick(r, []string{"yaml", "yml"}))
			}
			if err := write(name, []Doc{d}); err != nil {
				return err
			}
		}
		return nil
	case LayoutNested, LayoutRandom:
		if len(ds) == 0 {
			return write("all.yaml", ds)
		}
		nf := 1
		if r != nil {
			nf = 1 + r.Intn(4)
		}
		groups := make([][]Doc, nf)
		for _, d := range ds {
			g := 0
			if r != nil {
				g = r.Intn(nf)
			}
			groups[g] = append(groups[g], d)
		}
		for i, g := range groups {
			if len(g) == 0 {
				continue
			}
			name := fmt.Sprintf("g%d.yaml", i)
			if r != nil {
				name = fmt.Sprintf("%c%d.%s", 'a'+r.Intn(26), i, rng.Pick(r, []string{"yaml", "yml"}))
				if layout == LayoutNested || r.P(0.3) {
					sub := []string{"sub", "x/y", "k8s", "."}
					name = filepath.Join(rng.Pick(r, sub), name)
				}
			}
			if err := write(name, g); err != nil {
				return err
			}
		}
		return nil
	}
	return fmt.Errorf("unknown layout %s", layout)
}

// Write emits the world into dir with a layout drawn from r (or canonical if r is nil).
func (w *World) Write(dir string, r *rng.R) error {
	if r == nil {
		return WriteDocs(dir, w.Docs(), LayoutCanonial, nil)
	}
	lay := rng.Pick(r, []string{LayoutOneFile, LayoutOneFile, LayoutRandom, LayoutPerDoc, LayoutNested})
	return WriteDocs(dir, w.Docs(), lay, r)
}

// WorkloadDocs renders the documents of one workload (one per pod for bare / owned pods).
func WorkloadDocs(w *Workload) []Doc { return workloadDocs(w) }

// NamespaceDoc renders a Namespace object.
func NamespaceDoc(ns *Namespace) Doc {
	return Doc{Kind: "Namespace", Name: ns.Name,
		YAML: "apiVersion: v1\nkind: Namespace\nmetadata:\n  name: " + q(ns.Name) + "\n  labels: " + mapYAML(ns.Labels) + "\n"}
}

func NetPolDoc(n *NetPol) Doc {
	return Doc{Kind: "NetworkPolicy", Ns: n.Ns, Name: n.Name, YAML: NetPolYAML(n)}
}
func ANPDoc(a *ANP) Doc { return Doc{Kind: "AdminNetworkPolicy", Name: a.Name, YAML: ANPYAML(a)} }
func BANPDoc(b *BANP) Doc {
	return Doc{Kind: "BaselineAdminNetworkPolicy", Name: b.Name, YAML: BANPYAML(b)}
}
