package world

import (
	"bufio"
	"bytes"
	"fmt"
	"io"
	"os"
	"path/filepath"
	"sort"
	"strings"

	appsv1 "k8s.io/api/apps/v1"
	batchv1 "k8s.io/api/batch/v1"
	corev1 "k8s.io/api/core/v1"
	netv1 "k8s.io/api/networking/v1"
	metav1 "k8s.io/apimachinery/pkg/apis/meta/v1"
	"k8s.io/apimachinery/pkg/util/intstr"
	utilyaml "k8s.io/apimachinery/pkg/util/yaml"
	apisv1a "sigs.k8s.io/network-policy-api/apis/v1alpha1"
	"sigs.k8s.io/yaml"
)

// FromDir reads a directory of manifests written by somebody else (the fixture directories shipped with the repository under
// test) into an abstract world, so that the reference model can be asked about inputs our generators would never draw. The
// converter is deliberately timid: whatever it does not understand completely (a construct outside the world vocabulary, a
// document that does not parse, two objects of one name, pods of one owner that differ) makes it give up with a reason, and the
// case is then discarded - it never guesses. The typed structs of k8s.io/api are used for decoding only; nothing of the code
// under test is involved. IngressObjs reports that Service / Ingress / Route objects were seen (and left out of the world).
func FromDir(dir string) (w *World, ingressObjs bool, reason string) {
	c := &conv{w: &World{}, nsSeen: map[string]bool{}, peerSeen: map[string]bool{}, owned: map[string]*ownedGroup{}}
	var files []string
	_ = filepath.Walk(dir, func(p string, info os.FileInfo, err error) error {
		if err == nil && !info.IsDir() {
			switch filepath.Ext(p) {
			case ".yaml", ".yml", ".json":
				files = append(files, p)
			}
		}
		return nil
	})
	sort.Strings(files)
	for _, f := range files {
		b, err := os.ReadFile(f)
		if err != nil {
			return nil, false, "unreadable file"
		}
		rd := utilyaml.NewYAMLReader(bufio.NewReader(bytes.NewReader(b)))
		for {
			doc, err := rd.Read()
			if err == io.EOF {
				break
			}
			if err != nil {
				return nil, false, "document split: " + err.Error()
			}
			if len(bytes.TrimSpace(doc)) == 0 {
				continue
			}
			if c.doc(doc); c.bail != "" {
				return nil, false, c.bail
			}
		}
	}
	c.finishOwned()
	if c.bail != "" {
		return nil, false, c.bail
	}
	// namespaces that are only mentioned
	for _, wl := range c.w.Workloads {
		c.mention(wl.Ns)
	}
	for _, np := range c.w.NetPols {
		c.mention(np.Ns)
	}
	if len(c.w.Workloads) == 0 {
		return nil, false, "no workloads"
	}
	c.w.AddFeature("fixture")
	return c.w, c.ingress, ""
}

type ownedGroup struct {
	wl   Workload
	npod int
}

type conv struct {
	w        *World
	bail     string
	ingress  bool
	nsSeen   map[string]bool
	peerSeen map[string]bool
	owned    map[string]*ownedGroup
	ownedOrd []string
}

func (c *conv) fail(f string, a ...interface{}) {
	if c.bail == "" {
		c.bail = fmt.Sprintf(f, a...)
	}
}

func (c *conv) mention(ns string) {
	if !c.nsSeen[ns] {
		c.nsSeen[ns] = true
		c.w.Namespaces = append(c.w.Namespaces, Namespace{Name: ns})
	}
}

var groupOf = map[string]string{
	"Namespace": "v1", "Pod": "v1", "ReplicationController": "v1", "Service": "v1",
	"Deployment": "apps/v1", "ReplicaSet": "apps/v1", "StatefulSet": "apps/v1", "DaemonSet": "apps/v1",
	"Job": "batch/v1", "CronJob": "batch/v1",
	"NetworkPolicy": "networking.k8s.io/v1", "Ingress": "networking.k8s.io/v1",
	"AdminNetworkPolicy": "policy.networking.k8s.io/v1alpha1", "BaselineAdminNetworkPolicy": "policy.networking.k8s.io/v1alpha1",
	"Route": "route.openshift.io/v1",
}

func (c *conv) doc(doc []byte) {
	var head struct {
		APIVersion string                   `json:"apiVersion"`
		Kind       string                   `json:"kind"`
		Items      []map[string]interface{} `json:"items"`
	}
	if err := yaml.Unmarshal(doc, &head); err != nil {
		c.fail("document does not parse")
		return
	}
	if head.Kind == "" {
		c.fail("document without kind")
		return
	}
	if strings.HasSuffix(head.Kind, "List") {
		elem := strings.TrimSuffix(head.Kind, "List")
		for _, it := range head.Items {
			if _, ok := it["kind"]; !ok {
				if elem == "" {
					c.fail("list item without kind")
					return
				}
				it["kind"] = elem
				it["apiVersion"] = head.APIVersion
			}
			b, err := yaml.Marshal(it)
			if err != nil {
				c.fail("list item")
				return
			}
			if c.doc(b); c.bail != "" {
				return
			}
		}
		return
	}
	want, known := groupOf[head.Kind]
	if !known {
		return // a kind the tool does not analyse either (ConfigMap, ServiceAccount, ...)
	}
	if head.APIVersion != want {
		c.fail("%s under apiVersion %q", head.Kind, head.APIVersion)
		return
	}
	strict := func(into interface{}) bool {
		if err := yaml.UnmarshalStrict(doc, into); err != nil {
			// unknown fields are common in dumps of live clusters (status, managedFields are known; others may not be)
			if err2 := yaml.Unmarshal(doc, into); err2 != nil {
				c.fail("%s does not decode", head.Kind)
				return false
			}
		}
		return true
	}
	switch head.Kind {
	case "Service", "Ingress", "Route":
		c.ingress = true
	case "Namespace":
		var o corev1.Namespace
		if strict(&o) {
			if c.nsSeen[o.Name] {
				c.fail("namespace %s twice", o.Name)
				return
			}
			c.nsSeen[o.Name] = true
			c.w.Namespaces = append(c.w.Namespaces, Namespace{Name: o.Name, HasObj: true, Labels: copyMap(o.Labels)})
		}
	case "Pod":
		var o corev1.Pod
		if strict(&o) {
			c.pod(&o)
		}
	case "Deployment":
		var o appsv1.Deployment
		if strict(&o) {
			c.workload(KDeployment, &o.ObjectMeta, &o.Spec.Template, o.Spec.Replicas)
		}
	case "ReplicaSet":
		var o appsv1.ReplicaSet
		if strict(&o) {
			c.workload(KReplicaSet, &o.ObjectMeta, &o.Spec.Template, o.Spec.Replicas)
		}
	case "StatefulSet":
		var o appsv1.StatefulSet
		if strict(&o) {
			c.workload(KStatefulSet, &o.ObjectMeta, &o.Spec.Template, o.Spec.Replicas)
		}
	case "DaemonSet":
		var o appsv1.DaemonSet
		if strict(&o) {
			c.workload(KDaemonSet, &o.ObjectMeta, &o.Spec.Template, nil)
		}
	case "ReplicationController":
		var o corev1.ReplicationController
		if strict(&o) {
			if o.Spec.Template == nil {
				c.fail("ReplicationController without template")
				return
			}
			c.workload(KRC, &o.ObjectMeta, o.Spec.Template, o.Spec.Replicas)
		}
	case "Job":
		var o batchv1.Job
		if strict(&o) {
			c.workload(KJob, &o.ObjectMeta, &o.Spec.Template, o.Spec.Parallelism)
		}
	case "CronJob":
		var o batchv1.CronJob
		if strict(&o) {
			c.workload(KCronJob, &o.ObjectMeta, &o.Spec.JobTemplate.Spec.Template, nil)
		}
	case "NetworkPolicy":
		var o netv1.NetworkPolicy
		if strict(&o) {
			c.netpol(&o)
		}
	case "AdminNetworkPolicy":
		var o apisv1a.AdminNetworkPolicy
		if strict(&o) {
			c.anp(&o)
		}
	case "BaselineAdminNetworkPolicy":
		var o apisv1a.BaselineAdminNetworkPolicy
		if strict(&o) {
			c.banp(&o)
		}
	}
}

func copyMap(m map[string]string) map[string]string {
	if len(m) == 0 {
		return nil
	}
	out := make(map[string]string, len(m))
	for k, v := range m {
		out[k] = v
	}
	return out
}

func (c *conv) ports(spec *corev1.PodSpec) []CPort {
	var out []CPort
	names := map[string]bool{}
	for i := range spec.Containers {
		for _, p := range spec.Containers[i].Ports {
			if p.ContainerPort < 1 || p.ContainerPort > 65535 {
				c.fail("container port out of range")
			}
			if p.Name != "" {
				if names[p.Name] {
					c.fail("port name %s twice in one pod", p.Name)
				}
				names[p.Name] = true
			}
			pr := string(p.Protocol)
			out = append(out, CPort{Num: int(p.ContainerPort), Proto: pr, Name: p.Name})
		}
	}
	return out
}

func (c *conv) nsOf(ns string) (string, bool) {
	if ns == "" {
		return "default", true
	}
	return ns, false
}

func (c *conv) addWorkload(wl Workload) {
	key := wl.PeerString()
	// pods are addressed by namespace/name inside the tool: two workloads of one name in one namespace collide whatever their kinds
	nameKey := wl.Ns + "/" + wl.Name
	if c.peerSeen[key] || c.peerSeen[nameKey] {
		c.fail("two workloads named %s", nameKey)
		return
	}
	c.peerSeen[key], c.peerSeen[nameKey] = true, true
	c.w.Workloads = append(c.w.Workloads, wl)
}

func (c *conv) workload(kind string, meta *metav1.ObjectMeta, tmpl *corev1.PodTemplateSpec, replicas *int32) {
	if meta.Name == "" {
		c.fail("workload without name")
		return
	}
	ns, omit := c.nsOf(meta.Namespace)
	wl := Workload{Ns: ns, Name: meta.Name, Kind: kind, Labels: copyMap(tmpl.Labels), Ports: c.ports(&tmpl.Spec), OmitNs: omit, ObjLabels: copyMap(meta.Labels)}
	if wl.Labels == nil {
		wl.Labels = map[string]string{}
	}
	if replicas != nil {
		if *replicas < 1 {
			c.fail("workload with no replicas")
			return
		}
		n := int(*replicas)
		wl.Replicas = &n
	}
	if len(meta.OwnerReferences) > 0 {
		c.fail("controller object with ownerReferences")
		return
	}
	c.addWorkload(wl)
}

func (c *conv) pod(p *corev1.Pod) {
	if p.Name == "" {
		c.fail("pod without name")
		return
	}
	// a Pod manifest without status is a workload like any other on the manifest routes (the parser lends it an address)
	pending := p.Status.HostIP == "" || len(p.Status.PodIPs) == 0
	hostIP, podIP := "", ""
	if !pending {
		hostIP, podIP = p.Status.HostIP, p.Status.PodIPs[0].IP
	}
	ns, omit := c.nsOf(p.Namespace)
	labels := copyMap(p.Labels)
	if labels == nil {
		labels = map[string]string{}
	}
	ports := c.ports(&p.Spec)
	var ctrl *metav1.OwnerReference
	for i := range p.OwnerReferences {
		r := &p.OwnerReferences[i]
		if r.Controller == nil {
			c.fail("ownerReference without controller field")
			return
		}
		if *r.Controller {
			if ctrl != nil {
				c.fail("two controllers")
				return
			}
			ctrl = r
		}
	}
	if ctrl != nil && ctrl.Kind == "Node" && len(p.OwnerReferences) == 1 {
		ctrl = nil // a static pod: the tool does not take a Node for a workload owner
	} else if ctrl == nil && len(p.OwnerReferences) > 0 {
		c.fail("pod with non-controller owners only")
		return
	}
	if ctrl == nil {
		c.addWorkload(Workload{Ns: ns, Name: p.Name, Kind: KPod, Labels: labels, Ports: ports, OmitNs: omit, HostIP: hostIP, PodIP: podIP, Pending: pending})
		return
	}
	if ctrl.Kind == "Node" || ctrl.Name == "" {
		c.fail("unusual owner")
		return
	}
	key := ns + "/" + ctrl.Kind + "/" + ctrl.Name
	g := c.owned[key]
	if g == nil {
		c.owned[key] = &ownedGroup{wl: Workload{Ns: ns, Name: ctrl.Name, Kind: KOwnedPods, OwnerKind: ctrl.Kind, Labels: labels, Ports: ports}, npod: 1}
		c.ownedOrd = append(c.ownedOrd, key)
		return
	}
	if !sameMap(g.wl.Labels, labels) || !samePorts(g.wl.Ports, ports) {
		c.fail("pods of owner %s differ", key)
		return
	}
	g.npod++
}

func (c *conv) finishOwned() {
	for _, k := range c.ownedOrd {
		g := c.owned[k]
		g.wl.NPods = g.npod
		c.addWorkload(g.wl)
	}
}

func sameMap(a, b map[string]string) bool {
	if len(a) != len(b) {
		return false
	}
	for k, v := range a {
		if x, ok := b[k]; !ok || x != v {
			return false
		}
	}
	return true
}

func samePorts(a, b []CPort) bool {
	if len(a) != len(b) {
		return false
	}
	for i := range a {
		if a[i] != b[i] {
			return false
		}
	}
	return true
}

func (c *conv) sel(s *metav1.LabelSelector) *Sel {
	if s == nil {
		return nil
	}
	out := &Sel{ML: copyMap(s.MatchLabels)}
	for _, e := range s.MatchExpressions {
		switch e.Operator {
		case metav1.LabelSelectorOpIn, metav1.LabelSelectorOpNotIn:
			if len(e.Values) == 0 {
				c.fail("In/NotIn without values")
			}
		case metav1.LabelSelectorOpExists, metav1.LabelSelectorOpDoesNotExist:
			if len(e.Values) != 0 {
				c.fail("Exists/DoesNotExist with values")
			}
		default:
			c.fail("selector operator %q", e.Operator)
		}
		out.ME = append(out.ME, Req{Key: e.Key, Op: string(e.Operator), Vals: append([]string(nil), e.Values...)})
	}
	return out
}

func (c *conv) npPorts(ps []netv1.NetworkPolicyPort) []NPPort {
	var out []NPPort
	for _, p := range ps {
		q := NPPort{}
		if p.Protocol != nil {
			q.Proto = string(*p.Protocol)
			switch q.Proto {
			case "TCP", "UDP", "SCTP":
			default:
				c.fail("protocol %q", q.Proto)
			}
		}
		if p.Port != nil {
			if p.Port.Type == intstr.Int {
				q.Port = int(p.Port.IntVal)
				if q.Port < 1 || q.Port > 65535 {
					c.fail("port out of range")
				}
			} else {
				q.Name = p.Port.StrVal
				if q.Name == "" {
					c.fail("empty port name")
				}
			}
		}
		if p.EndPort != nil {
			q.EndPort = int(*p.EndPort)
			if q.Port == 0 || q.EndPort < q.Port || q.EndPort > 65535 {
				c.fail("endPort without numeric port or below it")
			}
		}
		out = append(out, q)
	}
	return out
}

func (c *conv) npPeers(ps []netv1.NetworkPolicyPeer) []NPPeer {
	var out []NPPeer
	for _, p := range ps {
		q := NPPeer{}
		switch {
		case p.IPBlock != nil:
			if p.PodSelector != nil || p.NamespaceSelector != nil {
				c.fail("ipBlock together with selectors")
			}
			lo, hi, ok := CIDRRange(p.IPBlock.CIDR)
			if !ok {
				c.fail("CIDR %q outside IPv4", p.IPBlock.CIDR)
			}
			ib := &IPB{CIDR: p.IPBlock.CIDR}
			for _, e := range p.IPBlock.Except {
				el, eh, ok := CIDRRange(e)
				if !ok || el < lo || eh > hi {
					c.fail("except %q outside its block", e)
				}
				ib.Except = append(ib.Except, e)
			}
			q.IPBlock = ib
		case p.PodSelector == nil && p.NamespaceSelector == nil:
			c.fail("empty peer")
		default:
			q.PodSel, q.NsSel = c.sel(p.PodSelector), c.sel(p.NamespaceSelector)
		}
		out = append(out, q)
	}
	return out
}

func (c *conv) netpol(o *netv1.NetworkPolicy) {
	ns, omit := c.nsOf(o.Namespace)
	np := NetPol{Ns: ns, Name: o.Name, OmitNs: omit}
	if o.Name == "" {
		c.fail("policy without name")
		return
	}
	for _, x := range c.w.NetPols {
		if x.Ns == ns && x.Name == o.Name {
			c.fail("policy %s/%s twice", ns, o.Name)
			return
		}
	}
	if s := c.sel(&o.Spec.PodSelector); s != nil {
		np.PodSel = *s
	}
	for _, t := range o.Spec.PolicyTypes {
		if t != netv1.PolicyTypeIngress && t != netv1.PolicyTypeEgress {
			c.fail("policy type %q", t)
		}
		np.PolicyTypes = append(np.PolicyTypes, string(t))
	}
	np.HasTypes = len(np.PolicyTypes) > 0
	for _, r := range o.Spec.Ingress {
		np.Ingress = append(np.Ingress, NPRule{Peers: c.npPeers(r.From), Ports: c.npPorts(r.Ports)})
	}
	for _, r := range o.Spec.Egress {
		np.Egress = append(np.Egress, NPRule{Peers: c.npPeers(r.To), Ports: c.npPorts(r.Ports)})
	}
	c.w.NetPols = append(c.w.NetPols, np)
}

func (c *conv) subject(ns *metav1.LabelSelector, pods *apisv1a.NamespacedPod) Subject {
	switch {
	case ns != nil && pods == nil:
		return Subject{Namespaces: c.sel(ns)}
	case ns == nil && pods != nil:
		return Subject{PodsNs: c.sel(&pods.NamespaceSelector), PodsPod: c.sel(&pods.PodSelector)}
	}
	c.fail("subject / peer with not exactly one of namespaces, pods")
	return Subject{}
}

func (c *conv) anpPorts(ps *[]apisv1a.AdminNetworkPolicyPort) ([]ANPPort, bool) {
	if ps == nil {
		return nil, false
	}
	var out []ANPPort
	for _, p := range *ps {
		n := 0
		q := ANPPort{}
		if p.PortNumber != nil {
			n++
			q = ANPPort{Kind: "num", Proto: string(p.PortNumber.Protocol), Port: int(p.PortNumber.Port)}
		}
		if p.PortRange != nil {
			n++
			q = ANPPort{Kind: "range", Proto: string(p.PortRange.Protocol), Port: int(p.PortRange.Start), End: int(p.PortRange.End)}
			if q.End < q.Port {
				c.fail("port range end below start")
			}
		}
		if p.NamedPort != nil {
			n++
			q = ANPPort{Kind: "named", Name: *p.NamedPort}
		}
		if n != 1 {
			c.fail("admin policy port with not exactly one field")
		}
		if q.Kind != "named" && (q.Port < 1 || q.Port > 65535 || q.End > 65535) {
			c.fail("admin policy port out of range")
		}
		switch q.Proto {
		case "", "TCP", "UDP", "SCTP":
		default:
			c.fail("protocol %q", q.Proto)
		}
		out = append(out, q)
	}
	return out, true
}

func (c *conv) action(a string) string {
	switch a {
	case "Allow", "Deny", "Pass":
		return a
	}
	c.fail("action %q", a)
	return a
}

func (c *conv) anp(o *apisv1a.AdminNetworkPolicy) {
	a := ANP{Name: o.Name, Priority: int(o.Spec.Priority), Subject: c.subject(o.Spec.Subject.Namespaces, o.Spec.Subject.Pods)}
	if o.Name == "" || a.Priority < 0 || a.Priority > 1000 {
		c.fail("admin policy name / priority")
	}
	for _, x := range c.w.ANPs {
		if x.Name == a.Name || x.Priority == a.Priority {
			c.fail("admin policies sharing a name or priority")
		}
	}
	for _, r := range o.Spec.Ingress {
		ru := ANPRule{Name: r.Name, Action: c.action(string(r.Action))}
		if len(r.From) == 0 {
			c.fail("admin rule without peers")
		}
		for _, p := range r.From {
			ru.Peers = append(ru.Peers, c.subject(p.Namespaces, p.Pods))
		}
		ru.Ports, ru.HasPorts = c.anpPorts(r.Ports)
		a.Ingress = append(a.Ingress, ru)
	}
	for _, r := range o.Spec.Egress {
		ru := ANPRule{Name: r.Name, Action: c.action(string(r.Action))}
		if len(r.To) == 0 {
			c.fail("admin rule without peers")
		}
		for _, p := range r.To {
			if p.Nodes != nil || len(p.Networks) > 0 {
				c.fail("admin egress peer nodes / networks")
			}
			ru.Peers = append(ru.Peers, c.subject(p.Namespaces, p.Pods))
		}
		ru.Ports, ru.HasPorts = c.anpPorts(r.Ports)
		a.Egress = append(a.Egress, ru)
	}
	c.w.ANPs = append(c.w.ANPs, a)
}

func (c *conv) banp(o *apisv1a.BaselineAdminNetworkPolicy) {
	if c.w.BANP != nil || o.Name != "default" {
		c.fail("second baseline policy or one not named default")
		return
	}
	b := &BANP{Name: o.Name, Subject: c.subject(o.Spec.Subject.Namespaces, o.Spec.Subject.Pods)}
	for _, r := range o.Spec.Ingress {
		ru := ANPRule{Name: r.Name, Action: string(r.Action)}
		if ru.Action != "Allow" && ru.Action != "Deny" {
			c.fail("baseline action %q", ru.Action)
		}
		if len(r.From) == 0 {
			c.fail("admin rule without peers")
		}
		for _, p := range r.From {
			ru.Peers = append(ru.Peers, c.subject(p.Namespaces, p.Pods))
		}
		ru.Ports, ru.HasPorts = c.anpPorts(r.Ports)
		b.Ingress = append(b.Ingress, ru)
	}
	for _, r := range o.Spec.Egress {
		ru := ANPRule{Name: r.Name, Action: string(r.Action)}
		if ru.Action != "Allow" && ru.Action != "Deny" {
			c.fail("baseline action %q", ru.Action)
		}
		if len(r.To) == 0 {
			c.fail("admin rule without peers")
		}
		for _, p := range r.To {
			if p.Nodes != nil || len(p.Networks) > 0 {
				c.fail("admin egress peer nodes / networks")
			}
			ru.Peers = append(ru.Peers, c.subject(p.Namespaces, p.Pods))
		}
		ru.Ports, ru.HasPorts = c.anpPorts(r.Ports)
		b.Egress = append(b.Egress, ru)
	}
	c.w.BANP = b
}
