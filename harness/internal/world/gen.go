package world

import (
	"fmt"
	"sort"

	"verif/harness/internal/rng"
)

// Tiny vocabulary on purpose: selectors collide, overlap and nest.
var (
	Keys      = []string{"app", "tier", "env"}
	Vals      = []string{"a", "b", "c"}
	NsNames   = []string{"ns1", "ns2", "ns3"}
	PortNames = []string{"http", "dns", "metrics"}
	PortNums  = []int{53, 80, 81, 8080, 65535, 1, 79, 443}
	CIDRs     = []string{"10.0.0.0/8", "10.1.0.0/16", "10.1.2.0/24", "0.0.0.0/0", "192.168.0.0/16", "10.1.2.3/32",
		"128.0.0.0/1", "0.0.0.0/1", "10.0.0.0/9", "10.1.2.4/30", "255.255.255.255/32", "0.0.0.0/32", "10.1.3.0/24", "172.16.0.0/12",
		"127.0.0.1/32", "127.0.0.0/8"} // 127.0.0.1 is the host address the tool gives to every pod it derives from a workload manifest
	Protos = []string{"TCP", "UDP", "SCTP"}
)

// Cfg tunes the generators.
type Cfg struct {
	MaxWorkloads   int
	MinWorkloads   int
	MaxNetPols     int
	MinNetPols     int
	Kinds          []string // workload kinds to draw from
	NamedEgressIP  float64  // probability to leave a named port in an egress rule that can reach addresses
	NoNamedPorts   bool
	NoIPBlocks     bool
	NoProtoOnly    bool
	AllNsObjects   bool    // every namespace gets a Namespace object
	UnusedNsPolicy float64 // probability that a policy lives in a namespace that has no workload
	LargeVocab     bool
	KindTwins      float64 // probability of a bare Pod named exactly like a controller workload of the same namespace (other labels)
	SharedNames    float64 // probability that workloads of two namespaces share their name (and kind)
	DottedNames    float64 // probability that one workload carries a dotted name (workload names are DNS subdomains: "payments.api" is valid)
}

func DefaultCfg() Cfg {
	return Cfg{MaxWorkloads: 6, MinWorkloads: 2, MaxNetPols: 5, MinNetPols: 1, Kinds: []string{KDeployment}, NamedEgressIP: 0.05, UnusedNsPolicy: 0.1}
}

func randLabels(r *rng.R, p float64) map[string]string {
	lab := map[string]string{}
	for _, k := range Keys {
		if r.P(p) {
			lab[k] = rng.Pick(r, Vals)
			if r.P(0.04) {
				lab[k] = "" // the empty string is a valid label value
			}
		}
	}
	return lab
}

// GenBase draws namespaces and workloads.
func GenBase(r *rng.R, c Cfg) *World {
	w := &World{}
	present := map[string]bool{}
	for _, ns := range NsNames {
		if r.P(0.75) {
			present[ns] = true
			hasObj := c.AllNsObjects || r.P(0.65)
			n := Namespace{Name: ns, HasObj: hasObj}
			if hasObj {
				n.Labels = randLabels(r, 0.45)
				if r.P(0.1) {
					n.Labels[MetaName] = ns // explicit, equal to the automatic one
				}
			}
			w.Namespaces = append(w.Namespaces, n)
		}
	}
	nwl := r.Range(c.MinWorkloads, c.MaxWorkloads)
	for i := 0; i < nwl; i++ {
		ns := rng.Pick(r, NsNames)
		if !present[ns] {
			present[ns] = true
			w.Namespaces = append(w.Namespaces, Namespace{Name: ns, HasObj: c.AllNsObjects})
			if !c.AllNsObjects {
				w.AddFeature("missingNsObject")
			}
		}
		wl := Workload{Ns: ns, Name: fmt.Sprintf("w%d", i), Kind: rng.Pick(r, c.Kinds), Labels: randLabels(r, 0.55)}
		wl.Ports = GenCPorts(r, c)
		if wl.Kind != KPod && wl.Kind != KOwnedPods && r.P(0.3) {
			wl.ObjLabels = randLabels(r, 0.6) // labels of the controller object (and of a CronJob's job template), not of its pods
		}
		switch wl.Kind {
		case KDeployment, KReplicaSet, KStatefulSet, KRC, KJob:
			if r.P(0.6) {
				v := rng.Pick(r, []int{0, 1, 2, 3})
				wl.Replicas = &v
				if v > 1 {
					w.AddFeature("multiReplica")
				}
			}
		case KOwnedPods:
			wl.NPods = r.Range(1, 3)
			wl.OwnerKind = rng.Pick(r, []string{KReplicaSet, KStatefulSet, KDaemonSet, KJob})
			wl.ExtraOwners = rng.Pick(r, []string{"", "", "", "before-false", "after-false", "before-omitted", "after-omitted"})
			wl.MixedOwnerAPI = wl.NPods >= 2 && r.P(0.3)
		}
		w.Workloads = append(w.Workloads, wl)
	}
	if c.DottedNames > 0 && r.P(c.DottedNames) {
		i := r.Intn(len(w.Workloads))
		w.Workloads[i].Name = w.Workloads[i].Name + ".api"
		w.AddFeature("dottedWorkloadName")
	}
	// identity strata: peers are identified by namespace/name[kind]; nothing may key them by less
	if c.KindTwins > 0 && r.P(c.KindTwins) {
		o := w.Workloads[r.Intn(len(w.Workloads))]
		if o.Kind != KPod && o.Kind != KOwnedPods {
			w.Workloads = append(w.Workloads, Workload{Ns: o.Ns, Name: o.Name, Kind: KPod, Labels: randLabels(r, 0.55), Ports: GenCPorts(r, c)})
			w.AddFeature("kindTwins")
		}
	}
	if c.SharedNames > 0 && r.P(c.SharedNames) {
		for i := 1; i < len(w.Workloads); i++ {
			if w.Workloads[i].Ns != w.Workloads[0].Ns && w.Workloads[i].Name != w.Workloads[0].Name {
				w.Workloads[i].Name = w.Workloads[0].Name
				w.Workloads[i].Kind, w.Workloads[i].Replicas = w.Workloads[0].Kind, nil
				w.Workloads[i].OwnerKind, w.Workloads[i].NPods = w.Workloads[0].OwnerKind, w.Workloads[0].NPods
				if r.P(0.5) { // true twins: also the same labels; they differ in their namespace and in the numbers behind their port names
					w.Workloads[i].Labels = map[string]string{}
					for k, v := range w.Workloads[0].Labels {
						w.Workloads[i].Labels[k] = v
					}
					w.Workloads[i].Ports = nil
					for pi, cp := range w.Workloads[0].Ports {
						cp.Num = []int{9090, 9091, 9092, 9093}[pi%4]
						w.Workloads[i].Ports = append(w.Workloads[i].Ports, cp)
					}
					if len(w.Workloads[0].Ports) == 0 {
						w.Workloads[0].Ports = []CPort{{Num: 8080, Name: "http"}}
						w.Workloads[i].Ports = []CPort{{Num: 9090, Name: "http"}}
					}
					w.AddFeature("sharedNamesTrueTwins")
				}
				w.AddFeature("sharedNames")
				break
			}
		}
	}
	for i := range w.Namespaces {
		if !w.Namespaces[i].HasObj {
			w.AddFeature("missingNsObject")
		}
	}
	sort.Slice(w.Namespaces, func(i, j int) bool { return w.Namespaces[i].Name < w.Namespaces[j].Name })
	return w
}

func GenCPorts(r *rng.R, c Cfg) []CPort {
	ports := []CPort{}
	usedN := map[string]bool{}
	usedP := map[string]bool{}
	for k := r.Intn(4); k > 0; k-- {
		p := CPort{Num: rng.Pick(r, PortNums), Proto: rng.Pick(r, []string{"TCP", "TCP", "UDP", "SCTP", ""})}
		key := fmt.Sprintf("%d/%s", p.Num, p.Protocol())
		if usedP[key] {
			continue
		}
		usedP[key] = true
		if !c.NoNamedPorts && r.P(0.6) {
			n := rng.Pick(r, PortNames)
			if !usedN[n] {
				usedN[n] = true
				p.Name = n
			}
		}
		ports = append(ports, p)
	}
	return ports
}

// labelPool collects labels that exist on workloads (pod=true) or namespaces.
func labelPool(w *World, pod bool) [][2]string {
	set := map[[2]string]bool{}
	if pod {
		for _, wl := range w.Workloads {
			for k, v := range wl.Labels {
				set[[2]string{k, v}] = true
			}
		}
	} else {
		for _, ns := range w.Namespaces {
			if ns.HasObj {
				for k, v := range ns.Labels {
					set[[2]string{k, v}] = true
				}
			}
			set[[2]string{MetaName, ns.Name}] = true
		}
	}
	out := make([][2]string, 0, len(set))
	for kv := range set {
		out = append(out, kv)
	}
	sort.Slice(out, func(i, j int) bool { return out[i][0]+"\x00"+out[i][1] < out[j][0]+"\x00"+out[j][1] })
	return out
}

// GenSel draws a selector biased towards labels that exist (pod labels or namespace labels).
func GenSel(r *rng.R, w *World, pod bool, pEmpty float64) *Sel {
	s := &Sel{}
	if r.P(pEmpty) {
		return s
	}
	pool := labelPool(w, pod)
	pickKV := func() (string, string) {
		if r.P(0.05) {
			return rng.Pick(r, Keys), "" // empty label value: must match only peers that carry the key with an empty value
		}
		if len(pool) > 0 && r.P(0.75) {
			kv := rng.Pick(r, pool)
			return kv[0], kv[1]
		}
		return rng.Pick(r, Keys), rng.Pick(r, Vals)
	}
	t := r.Float()
	if t < 0.65 {
		k, v := pickKV()
		s.ML = map[string]string{k: v}
		if r.P(0.15) {
			k2, v2 := pickKV()
			s.ML[k2] = v2
		}
	}
	if t >= 0.5 {
		for n := r.Range(1, 2); n > 0; n-- {
			op := rng.Pick(r, []string{"In", "In", "NotIn", "Exists", "DoesNotExist"})
			k, v := pickKV()
			req := Req{Key: k, Op: op}
			if op == "In" || op == "NotIn" {
				vs := map[string]bool{v: true}
				if r.P(0.5) {
					if k == MetaName {
						vs[rng.Pick(r, NsNames)] = true
					} else {
						vs[rng.Pick(r, Vals)] = true
					}
				}
				for x := range vs {
					req.Vals = append(req.Vals, x)
				}
				sort.Strings(req.Vals)
			}
			s.ME = append(s.ME, req)
		}
	}
	return s
}

func within(inner, outer string) bool {
	il, ih, ok1 := CIDRRange(inner)
	ol, oh, ok2 := CIDRRange(outer)
	return ok1 && ok2 && il >= ol && ih <= oh && !(il == ol && ih == oh)
}

func GenIPBlock(r *rng.R) *IPB {
	c := rng.Pick(r, CIDRs)
	b := &IPB{CIDR: c}
	for _, e := range CIDRs {
		if within(e, c) && r.P(0.3) {
			b.Except = append(b.Except, e)
		}
	}
	if len(b.Except) > 1 && r.P(0.5) { // the order of the except entries means nothing (a narrower one may stand before the wider one that contains it)
		rng.Shuffle(r, b.Except)
	}
	return b
}

func GenNPPort(r *rng.R, c Cfg, allowNamed bool) NPPort {
	p := NPPort{Proto: rng.Pick(r, []string{"TCP", "UDP", "SCTP", "", ""})}
	t := r.Float()
	switch {
	case t < 0.12 && !c.NoProtoOnly:
	case t < 0.55:
		p.Port = rng.Pick(r, PortNums)
	case t < 0.8:
		a, b := rng.Pick(r, PortNums), rng.Pick(r, PortNums)
		if a > b {
			a, b = b, a
		}
		p.Port, p.EndPort = a, b
	default:
		if allowNamed && !c.NoNamedPorts {
			p.Name = rng.Pick(r, PortNames)
		} else {
			p.Port = rng.Pick(r, PortNums)
		}
	}
	return p
}

// GenNPRule draws one rule; egress tells the direction (named ports towards addresses are rationed).
func GenNPRule(r *rng.R, w *World, c Cfg, ns string, egress bool) NPRule {
	rule := NPRule{}
	hasIP := false
	for n := rng.Pick(r, []int{0, 1, 1, 1, 2, 3}); n > 0; n-- {
		if !c.NoIPBlocks && r.P(0.3) {
			rule.Peers = append(rule.Peers, NPPeer{IPBlock: GenIPBlock(r)})
			hasIP = true
			continue
		}
		p := NPPeer{}
		u := r.Float()
		switch {
		case u < 0.4:
			p.PodSel = GenSel(r, w, true, 0.2)
		case u < 0.65:
			p.NsSel = GenSel(r, w, false, 0.2)
		default:
			p.PodSel = GenSel(r, w, true, 0.2)
			p.NsSel = GenSel(r, w, false, 0.2)
		}
		rule.Peers = append(rule.Peers, p)
	}
	reachesIP := hasIP || len(rule.Peers) == 0
	allowNamed := !egress || !reachesIP || r.P(c.NamedEgressIP)
	for n := rng.Pick(r, []int{0, 1, 1, 2, 3}); n > 0; n-- {
		rule.Ports = append(rule.Ports, GenNPPort(r, c, allowNamed))
	}
	return rule
}

// GenNetPol draws a policy in namespace ns.
func GenNetPol(r *rng.R, w *World, c Cfg, ns, name string) NetPol {
	np := NetPol{Ns: ns, Name: name}
	// podSelector biased to labels of pods of that namespace
	np.PodSel = *GenSel(r, w, true, 0.3)
	for di := 0; di < 2; di++ {
		for n := rng.Pick(r, []int{0, 0, 1, 1, 2, 3}); n > 0; n-- {
			rule := GenNPRule(r, w, c, ns, di == 1)
			if di == 0 {
				np.Ingress = append(np.Ingress, rule)
			} else {
				np.Egress = append(np.Egress, rule)
			}
		}
	}
	t := r.Float()
	switch {
	case t < 0.4:
	case t < 0.55:
		np.HasTypes, np.PolicyTypes = true, []string{"Ingress"}
	case t < 0.7:
		np.HasTypes, np.PolicyTypes = true, []string{"Egress"}
	default:
		np.HasTypes, np.PolicyTypes = true, []string{"Ingress", "Egress"}
	}
	if r.P(0.2) { // a direction without rules may be spelled as an empty list or null instead of leaving the key out
		np.EmptySpelling = rng.Pick(r, []string{"list", "list", "null"})
	}
	return np
}

func wlNamespaces(w *World) []string {
	set := map[string]bool{}
	for _, wl := range w.Workloads {
		set[wl.Ns] = true
	}
	out := []string{}
	for n := range set {
		out = append(out, n)
	}
	sort.Strings(out)
	return out
}

// GenNetPols adds policies to w.
func GenNetPols(r *rng.R, w *World, c Cfg) {
	n := r.Range(c.MinNetPols, c.MaxNetPols)
	wns := wlNamespaces(w)
	for i := 0; i < n; i++ {
		ns := ""
		if len(wns) > 0 && !r.P(c.UnusedNsPolicy) {
			ns = rng.Pick(r, wns)
		} else {
			ns = rng.Pick(r, NsNames)
		}
		if w.NsByName(ns) == nil {
			w.Namespaces = append(w.Namespaces, Namespace{Name: ns, HasObj: c.AllNsObjects || r.P(0.5)})
			sort.Slice(w.Namespaces, func(i, j int) bool { return w.Namespaces[i].Name < w.Namespaces[j].Name })
		}
		w.NetPols = append(w.NetPols, GenNetPol(r, w, c, ns, fmt.Sprintf("np%d", i)))
	}
	// the same policy NAME in two namespaces (a "default-deny" stamped into every namespace) is no conflict
	if r.P(0.25) {
		for i := 1; i < len(w.NetPols); i++ {
			if w.NetPols[i].Ns != w.NetPols[0].Ns {
				w.NetPols[i].Name = w.NetPols[0].Name
				w.AddFeature("policyNameSharedAcrossNamespaces")
				break
			}
		}
	}
	TagNetPolFeatures(w)
}

// TagNetPolFeatures records which NetworkPolicy features the world contains.
func TagNetPolFeatures(w *World) {
	tagSel := func(s *Sel) {
		if s == nil {
			return
		}
		for _, e := range s.ME {
			w.AddFeature(e.Op)
		}
		if len(s.ML) > 0 {
			w.AddFeature("matchLabels")
		}
		if s.IsEmpty() {
			w.AddFeature("emptySelector")
		}
	}
	for i := range w.NetPols {
		np := &w.NetPols[i]
		tagSel(&np.PodSel)
		if !np.HasTypes {
			w.AddFeature("policyTypesDefaulted")
		} else if len(np.PolicyTypes) == 1 && np.PolicyTypes[0] == "Egress" {
			w.AddFeature("egressOnly")
		}
		for di, rules := range [][]NPRule{np.Ingress, np.Egress} {
			for _, rule := range rules {
				if len(rule.Peers) == 0 {
					w.AddFeature("emptyFrom")
				}
				if len(rule.Ports) == 0 {
					w.AddFeature("noPorts")
				}
				for _, p := range rule.Peers {
					if p.IPBlock != nil {
						w.AddFeature("ipBlock")
						if len(p.IPBlock.Except) > 0 {
							w.AddFeature("except")
						}
						if len(p.IPBlock.Except) > 1 {
							w.AddFeature("multiExcept")
						}
					} else {
						tagSel(p.PodSel)
						tagSel(p.NsSel)
						if p.NsSel == nil {
							w.AddFeature("nsSelectorNil")
						} else if p.PodSel == nil {
							w.AddFeature("nsSelectorOnly")
						} else {
							w.AddFeature("nsAndPodSelector")
						}
					}
				}
				for _, p := range rule.Ports {
					switch {
					case p.Name != "":
						w.AddFeature("namedPort")
						if di == 1 {
							w.AddFeature("namedPortEgress")
						}
					case p.Port == 0:
						w.AddFeature("protoOnlyPort")
					case p.EndPort != 0:
						w.AddFeature("endPort")
					default:
						w.AddFeature("numPort")
					}
					if p.Proto == "" {
						w.AddFeature("protoDefaulted")
					} else if p.Proto != "TCP" {
						w.AddFeature("nonTCP")
					}
				}
			}
		}
	}
}

// GenNPWorld is the standard NetworkPolicy-only world.
func GenNPWorld(r *rng.R, c Cfg) *World {
	w := GenBase(r, c)
	GenNetPols(r, w, c)
	return w
}

// ---- admin policies

func GenSubject(r *rng.R, w *World) Subject {
	if r.P(0.5) {
		return Subject{Namespaces: GenSel(r, w, false, 0.35)}
	}
	return Subject{PodsNs: GenSel(r, w, false, 0.45), PodsPod: GenSel(r, w, true, 0.35)}
}

// overlapping port shapes so that several layers capture different slices of one port space
func GenANPPorts(r *rng.R, c Cfg) ([]ANPPort, bool) {
	if r.P(0.3) {
		return nil, false
	}
	if r.P(0.05) {
		return fullPortTriple(r), true
	}
	ps := []ANPPort{}
	for n := r.Range(1, 3); n > 0; n-- {
		pr := rng.Pick(r, []string{"TCP", "TCP", "UDP", "SCTP", ""})
		t := r.Float()
		switch {
		case t < 0.4:
			ps = append(ps, ANPPort{Kind: "num", Proto: pr, Port: rng.Pick(r, []int{80, 80, 81, 79, 53, 8080, 1, 65535})})
		case t < 0.8:
			sh := rng.Pick(r, [][2]int{{80, 81}, {79, 80}, {1, 65535}, {53, 80}, {81, 8080}, {1, 79}, {80, 65535}, {80, 80}})
			ps = append(ps, ANPPort{Kind: "range", Proto: pr, Port: sh[0], End: sh[1]})
		default:
			if c.NoNamedPorts {
				ps = append(ps, ANPPort{Kind: "num", Proto: pr, Port: 80})
			} else {
				ps = append(ps, ANPPort{Kind: "named", Name: rng.Pick(r, PortNames)})
			}
		}
	}
	return ps, true
}

func GenANPRules(r *rng.R, w *World, c Cfg, banp bool, maxRules int) []ANPRule {
	rules := []ANPRule{}
	n := r.Intn(maxRules + 1)
	for i := 0; i < n; i++ {
		acts := []string{"Allow", "Deny", "Pass"}
		if banp {
			acts = acts[:2]
		}
		rule := ANPRule{Name: fmt.Sprintf("r%d", i), Action: rng.Pick(r, acts)}
		for k := r.Range(1, 2); k > 0; k-- {
			rule.Peers = append(rule.Peers, GenSubject(r, w))
		}
		rule.Ports, rule.HasPorts = GenANPPorts(r, c)
		rules = append(rules, rule)
	}
	return rules
}

var Priorities = []int{0, 1, 2, 5, 10, 50, 99, 100, 500, 999, 1000}

// GenAdmin adds ANPs and maybe a BANP.
func GenAdmin(r *rng.R, w *World, c Cfg, minANP, maxANP int, pBANP float64) {
	pris := append([]int(nil), Priorities...)
	rng.Shuffle(r, pris)
	n := r.Range(minANP, maxANP)
	for i := 0; i < n; i++ {
		a := ANP{Name: fmt.Sprintf("anp%d", i), Priority: pris[i], Subject: GenSubject(r, w)}
		a.Ingress = GenANPRules(r, w, c, false, 3)
		a.Egress = GenANPRules(r, w, c, false, 3)
		w.ANPs = append(w.ANPs, a)
	}
	if r.P(pBANP) {
		w.BANP = &BANP{Name: "default", Subject: GenSubject(r, w)}
		w.BANP.Ingress = GenANPRules(r, w, c, true, 3)
		w.BANP.Egress = GenANPRules(r, w, c, true, 3)
	}
	if n > 0 && w.BANP != nil && r.P(0.2) { // an AdminNetworkPolicy may carry the one name the BaselineAdminNetworkPolicy must carry
		w.ANPs[len(w.ANPs)-1-r.Intn(n)].Name = "default"
		w.AddFeature("anpNamedDefault")
	}
	TagAdminFeatures(w)
}

func TagAdminFeatures(w *World) {
	if len(w.ANPs) > 0 {
		w.AddFeature("anp")
	}
	if len(w.ANPs) > 1 {
		w.AddFeature("multiANP")
	}
	if w.BANP != nil {
		w.AddFeature("banp")
	}
	for i := 1; i < len(w.ANPs); i++ {
		if w.ANPs[i].Priority < w.ANPs[i-1].Priority {
			w.AddFeature("anpOutOfOrder")
		}
	}
	tag := func(rules []ANPRule) {
		for _, r := range rules {
			w.AddFeature("anp" + r.Action)
			for _, p := range r.Ports {
				w.AddFeature("anpPort_" + p.Kind)
			}
			if !r.HasPorts {
				w.AddFeature("anpNoPorts")
			}
		}
	}
	for i := range w.ANPs {
		tag(w.ANPs[i].Ingress)
		tag(w.ANPs[i].Egress)
	}
	if w.BANP != nil {
		tag(w.BANP.Ingress)
		tag(w.BANP.Egress)
	}
}

// SelFor builds a selector that matches the given label set (used by goal-directed generators).
func SelFor(r *rng.R, labels map[string]string) *Sel {
	ks := SortedKeys(labels)
	if len(ks) == 0 || r.P(0.25) {
		return &Sel{}
	}
	k := rng.Pick(r, ks)
	switch r.Intn(4) {
	case 0:
		return &Sel{ME: []Req{{Key: k, Op: "In", Vals: []string{labels[k]}}}}
	case 1:
		return &Sel{ME: []Req{{Key: k, Op: "Exists"}}}
	default:
		return &Sel{ML: map[string]string{k: labels[k]}}
	}
}

// SubjectFor builds a subject that selects the workload.
func SubjectFor(r *rng.R, w *World, wl *Workload) Subject {
	nsl := w.NsLabels(wl.Ns)
	if r.P(0.5) {
		return Subject{Namespaces: SelFor(r, nsl)}
	}
	return Subject{PodsNs: SelFor(r, nsl), PodsPod: SelFor(r, wl.Labels)}
}
