package world

import (
	"fmt"

	"verif/harness/internal/rng"
)

var overlapShapes = [][2]int{{80, 80}, {80, 81}, {79, 80}, {1, 65535}, {53, 53}, {81, 8080}, {1, 79}, {80, 65535}, {79, 81}}

// fullPortTriple spells "everything" port by port: the whole range of each protocol (split in two for one of them half of the time)
func fullPortTriple(r *rng.R) []ANPPort {
	ps := []ANPPort{}
	for _, pr := range Protos {
		if r.P(0.25) {
			cut := rng.Pick(r, []int{1, 80, 32768, 65534})
			ps = append(ps, ANPPort{Kind: "range", Proto: pr, Port: 1, End: cut}, ANPPort{Kind: "range", Proto: pr, Port: cut + 1, End: 65535})
		} else {
			ps = append(ps, ANPPort{Kind: "range", Proto: pr, Port: 1, End: 65535})
		}
	}
	rng.Shuffle(r, ps)
	return ps
}

func directedANPPorts(r *rng.R, dst *Workload, c Cfg) ([]ANPPort, bool) {
	if r.P(0.2) {
		return nil, false
	}
	if r.P(0.07) {
		return fullPortTriple(r), true
	}
	ps := []ANPPort{}
	for n := r.Range(1, 2); n > 0; n-- {
		pr := rng.Pick(r, []string{"TCP", "TCP", "TCP", "", "UDP"})
		sh := rng.Pick(r, overlapShapes)
		switch {
		case !c.NoNamedPorts && r.P(0.15):
			name := rng.Pick(r, PortNames)
			for _, cp := range dst.Ports {
				if cp.Name != "" && r.P(0.7) {
					name = cp.Name
				}
			}
			ps = append(ps, ANPPort{Kind: "named", Name: name})
		case sh[0] == sh[1]:
			ps = append(ps, ANPPort{Kind: "num", Proto: pr, Port: sh[0]})
		default:
			ps = append(ps, ANPPort{Kind: "range", Proto: pr, Port: sh[0], End: sh[1]})
		}
	}
	return ps, true
}

func directedNPPorts(r *rng.R) []NPPort {
	if r.P(0.2) {
		return nil
	}
	ps := []NPPort{}
	for n := r.Range(1, 2); n > 0; n-- {
		sh := rng.Pick(r, overlapShapes)
		p := NPPort{Proto: rng.Pick(r, []string{"TCP", "TCP", "", "UDP"}), Port: sh[0]}
		if sh[1] != sh[0] {
			p.EndPort = sh[1]
		}
		ps = append(ps, p)
	}
	return ps
}

// GenPrecedenceWorld builds a world around one (src,dst) pair so that several admin policies, the
// NetworkPolicy layer and the baseline policy all capture slices of the same port space for it.
func GenPrecedenceWorld(r *rng.R, c Cfg) *World {
	c.MinWorkloads = 2
	w := GenBase(r, c)
	si := r.Intn(len(w.Workloads))
	di := r.Intn(len(w.Workloads) - 1)
	if di >= si {
		di++
	}
	src, dst := &w.Workloads[si], &w.Workloads[di]
	if len(dst.Ports) == 0 && r.P(0.5) {
		dst.Ports = []CPort{{Num: 80, Name: "http"}}
	}
	pris := append([]int(nil), Priorities...)
	rng.Shuffle(r, pris)
	if r.P(0.3) { // adjacent priorities
		base := rng.Pick(r, []int{0, 10, 998})
		rest := []int{}
		for _, p := range pris {
			if p < base || p > base+2 {
				rest = append(rest, p)
			}
		}
		head := []int{base, base + 1, base + 2}
		rng.Shuffle(r, head)
		pris = append(head, rest...)
	}
	k := r.Range(1, 3)
	for i := 0; i < k; i++ {
		a := ANP{Name: fmt.Sprintf("anp%d", i), Priority: pris[i]}
		ingress := r.P(0.5)
		pod, other := src, dst
		if ingress {
			pod, other = dst, src
		}
		a.Subject = SubjectFor(r, w, pod)
		nr := r.Range(1, 4)
		for j := 0; j < nr; j++ {
			rule := ANPRule{Name: fmt.Sprintf("r%d", j), Action: rng.Pick(r, []string{"Allow", "Deny", "Pass"})}
			if r.P(0.8) {
				rule.Peers = []Subject{SubjectFor(r, w, other)}
			} else {
				rule.Peers = []Subject{GenSubject(r, w)}
			}
			rule.Ports, rule.HasPorts = directedANPPorts(r, dst, c)
			if ingress {
				a.Ingress = append(a.Ingress, rule)
			} else {
				a.Egress = append(a.Egress, rule)
			}
		}
		if r.P(0.25) { // also rules in the other direction
			extra := GenANPRules(r, w, c, false, 2)
			if ingress {
				a.Egress = extra
			} else {
				a.Ingress = extra
			}
		}
		w.ANPs = append(w.ANPs, a)
	}
	// NetworkPolicy layer
	switch r.Intn(3) {
	case 0: // none
	case 1: // governing the pair
		ingress := r.P(0.5)
		pod, other := src, dst
		if ingress {
			pod, other = dst, src
		}
		np := NetPol{Ns: pod.Ns, Name: "npd0", PodSel: *SelFor(r, pod.Labels)}
		rule := NPRule{Ports: directedNPPorts(r)}
		if r.P(0.8) {
			rule.Peers = []NPPeer{{PodSel: SelFor(r, other.Labels), NsSel: SelFor(r, w.NsLabels(other.Ns))}}
		}
		if ingress {
			np.Ingress = []NPRule{rule}
			np.HasTypes, np.PolicyTypes = true, []string{"Ingress"}
		} else {
			np.Egress = []NPRule{rule}
			np.HasTypes, np.PolicyTypes = true, []string{"Egress"}
		}
		if r.P(0.2) {
			np.HasTypes, np.PolicyTypes = false, nil
		}
		w.NetPols = append(w.NetPols, np)
	case 2: // not governing (random)
		nc := c
		nc.MinNetPols, nc.MaxNetPols, nc.NamedEgressIP = 1, 2, 0
		GenNetPols(r, w, nc)
	}
	// baseline
	if r.P(0.6) {
		ingress := r.P(0.5)
		pod, other := src, dst
		if ingress {
			pod, other = dst, src
		}
		b := &BANP{Name: "default", Subject: SubjectFor(r, w, pod)}
		// up to four ordered rules; some do not select the other end, some carry no ports: the FIRST rule that matches both the
		// other end and the port decides, whatever stands between
		nr := r.Range(1, 4)
		for j := 0; j < nr; j++ {
			rule := ANPRule{Name: fmt.Sprintf("b%d", j), Action: rng.Pick(r, []string{"Allow", "Deny"}), Peers: []Subject{SubjectFor(r, w, other)}}
			if r.P(0.25) {
				rule.Peers = []Subject{GenSubject(r, w)}
			}
			rule.Ports, rule.HasPorts = directedANPPorts(r, dst, c)
			if r.P(0.2) {
				rule.Ports, rule.HasPorts = nil, false
			}
			if ingress {
				b.Ingress = append(b.Ingress, rule)
			} else {
				b.Egress = append(b.Egress, rule)
			}
		}
		w.BANP = b
	}
	// random surroundings
	if r.P(0.4) {
		n := r.Range(1, 2)
		for i := 0; i < n; i++ {
			a := ANP{Name: fmt.Sprintf("anpx%d", i), Priority: pris[k+i], Subject: GenSubject(r, w)}
			a.Ingress = GenANPRules(r, w, c, false, 2)
			a.Egress = GenANPRules(r, w, c, false, 2)
			w.ANPs = append(w.ANPs, a)
		}
	}
	// "everything" granted port by port by the one admin policy that captures the pair, above a NetworkPolicy that grants the pair
	// nothing: the admin layer's answer is the whole answer and must come out in canonical form
	if r.P(0.08) {
		ingress := r.P(0.5)
		pod, other := src, dst
		if ingress {
			pod, other = dst, src
		}
		a := ANP{Name: "allport", Priority: pris[0], Subject: SubjectFor(r, w, pod)}
		rule := ANPRule{Name: "all", Action: "Allow", Peers: []Subject{SubjectFor(r, w, other)}, Ports: fullPortTriple(r), HasPorts: true}
		deny := NetPol{Ns: pod.Ns, Name: "deny-all", PodSel: Sel{}, HasTypes: true}
		if ingress {
			a.Ingress, deny.PolicyTypes = []ANPRule{rule}, []string{"Ingress"}
		} else {
			a.Egress, deny.PolicyTypes = []ANPRule{rule}, []string{"Egress"}
		}
		w.ANPs, w.BANP = []ANP{a}, nil
		w.NetPols = []NetPol{deny}
		w.AddFeature("fullTripleAllowAboveDeny")
	}
	// a rule completely shadowed by an earlier rule of another action whose ONE range covers the later rule's SEVERAL separate ports
	// (containment of a set with more ranges in a set with fewer)
	if r.P(0.08) {
		ingress := r.P(0.5)
		pod, other := src, dst
		if ingress {
			pod, other = dst, src
		}
		first, second := "Allow", "Deny"
		if r.P(0.5) {
			first, second = "Deny", "Allow"
		}
		pr := rng.Pick(r, []string{"TCP", "TCP", "UDP"})
		a := ANP{Name: "shadow", Priority: pris[0], Subject: SubjectFor(r, w, pod)}
		rules := []ANPRule{
			{Name: "wide", Action: first, Peers: []Subject{SubjectFor(r, w, other)}, HasPorts: true, Ports: []ANPPort{{Kind: "range", Proto: pr, Port: 80, End: 90}}},
			{Name: "narrow", Action: second, Peers: []Subject{SubjectFor(r, w, other)}, HasPorts: true,
				Ports: []ANPPort{{Kind: "num", Proto: pr, Port: 80}, {Kind: "num", Proto: pr, Port: 82}, {Kind: "range", Proto: pr, Port: 85, End: 86}}}}
		if ingress {
			a.Ingress = rules
		} else {
			a.Egress = rules
		}
		w.ANPs = append([]ANP{a}, w.ANPs[minInt(1, len(w.ANPs)):]...)
		w.AddFeature("shadowedSplitRule")
	}
	rng.Shuffle(r, w.ANPs)
	if len(w.ANPs) > 0 && r.P(0.15) { // an AdminNetworkPolicy may carry the one name a BaselineAdminNetworkPolicy must carry
		w.ANPs[r.Intn(len(w.ANPs))].Name = "default"
		w.AddFeature("anpNamedDefault")
	}
	TagNetPolFeatures(w)
	TagAdminFeatures(w)
	w.AddFeature("directed")
	return w
}

// AddCanonStress adds policies whose port lists stress canonicalisation: protocol-only ports of all three
// protocols (union = everything), touching ranges, ranges that together cover 1..65535, nested CIDRs and /32s.
func AddCanonStress(r *rng.R, w *World) {
	if len(w.Workloads) == 0 {
		return
	}
	shapes := [][]NPPort{
		{{Proto: "TCP"}, {Proto: "UDP"}, {Proto: "SCTP"}},
		{{Proto: "TCP", Port: 1, EndPort: 79}, {Proto: "TCP", Port: 80, EndPort: 65535}, {Proto: "UDP"}, {Proto: "SCTP"}},
		{{Proto: "TCP", Port: 80, EndPort: 90}, {Proto: "TCP", Port: 91, EndPort: 100}},
		{{Proto: "TCP", Port: 1, EndPort: 65535}, {Proto: "UDP", Port: 1, EndPort: 65535}, {Proto: "SCTP", Port: 1, EndPort: 65535}},
		{{Proto: "TCP", Port: 80}, {Proto: "TCP", Port: 81}, {Proto: "TCP", Port: 82}, {Proto: "TCP", Port: 79}},
		{{Proto: "UDP", Port: 1, EndPort: 32768}, {Proto: "UDP", Port: 32769, EndPort: 65535}},
		{{Proto: "TCP", Port: 80, EndPort: 100}, {Proto: "TCP", Port: 90, EndPort: 110}, {Proto: "TCP", Port: 85}},
		{{Proto: "SCTP", Port: 65535}, {Proto: "SCTP", Port: 1}, {Proto: "SCTP", Port: 2, EndPort: 65534}},
		// a long connection: many non-contiguous items over several protocols (formatters that wrap, truncate or abbreviate)
		{{Proto: "TCP", Port: 80}, {Proto: "TCP", Port: 443}, {Proto: "TCP", Port: 5000}, {Proto: "TCP", Port: 5432}, {Proto: "TCP", Port: 8000}, {Proto: "TCP", Port: 8080},
			{Proto: "TCP", Port: 8443}, {Proto: "TCP", Port: 9000}, {Proto: "TCP", Port: 9090}, {Proto: "TCP", Port: 9443}, {Proto: "UDP", Port: 53}, {Proto: "UDP", Port: 5353},
			{Proto: "SCTP", Port: 7, EndPort: 9}, {Proto: "SCTP", Port: 11}, {Proto: "TCP", Port: 20, EndPort: 21}, {Proto: "TCP", Port: 25}, {Proto: "UDP", Port: 123}, {Proto: "UDP", Port: 161, EndPort: 162}},
	}
	cidrSets := [][]NPPeer{
		{{IPBlock: &IPB{CIDR: "0.0.0.0/1"}}, {IPBlock: &IPB{CIDR: "128.0.0.0/1"}}},
		{{IPBlock: &IPB{CIDR: "10.0.0.0/8", Except: []string{"10.1.0.0/16", "10.1.2.0/24"}}}},
		{{IPBlock: &IPB{CIDR: "0.0.0.0/0", Except: []string{"10.1.2.3/32"}}}},
		{{IPBlock: &IPB{CIDR: "255.255.255.255/32"}}, {IPBlock: &IPB{CIDR: "0.0.0.0/32"}}},
		{{IPBlock: &IPB{CIDR: "10.1.2.0/24"}}, {IPBlock: &IPB{CIDR: "10.1.3.0/24"}}},
	}
	n := r.Range(1, 3)
	for i := 0; i < n; i++ {
		wl := rng.Pick(r, w.Workloads)
		np := NetPol{Ns: wl.Ns, Name: fmt.Sprintf("canon%d", i), PodSel: *SelFor(r, wl.Labels)}
		k := r.Range(1, 3)
		for j := 0; j < k; j++ {
			rule := NPRule{Ports: append([]NPPort(nil), rng.Pick(r, shapes)...)}
			if r.P(0.5) {
				rule.Peers = append([]NPPeer(nil), rng.Pick(r, cidrSets)...)
				if r.P(0.5) {
					rule.Peers = append(rule.Peers, NPPeer{NsSel: &Sel{}})
				}
			}
			if r.P(0.5) {
				np.Ingress = append(np.Ingress, rule)
			} else {
				np.Egress = append(np.Egress, rule)
			}
		}
		w.NetPols = append(w.NetPols, np)
	}
	// complementary policies: each holds all three protocols, together they cover everything (the union that completes the
	// set adds no new protocol)
	if r.P(0.5) {
		wl := rng.Pick(r, w.Workloads)
		ing := r.P(0.5)
		var lo, hi []NPPort
		for _, pr := range Protos {
			cut := rng.Pick(r, []int{1, 79, 80, 1023, 32768, 65534})
			lo = append(lo, NPPort{Proto: pr, Port: 1, EndPort: cut})
			hi = append(hi, NPPort{Proto: pr, Port: cut + 1, EndPort: 65535})
		}
		named := ing && r.P(0.5) // one of the two also allows a named port: the union is still everything
		cluster := r.P(0.6)      // and the rules may be entire-cluster rules (exposure analysis keeps their union per pod)
		for k, ports := range [][]NPPort{lo, hi} {
			np := NetPol{Ns: wl.Ns, Name: fmt.Sprintf("compl%d", k), PodSel: *SelFor(r, wl.Labels), HasTypes: true}
			if named && k == 0 {
				ports = append(ports, NPPort{Proto: rng.Pick(r, Protos), Name: rng.Pick(r, PortNames)})
			}
			rule := NPRule{Ports: ports}
			if cluster {
				rule.Peers = []NPPeer{{NsSel: &Sel{}}}
			}
			if ing {
				np.Ingress, np.PolicyTypes = []NPRule{rule}, []string{"Ingress"}
			} else {
				np.Egress, np.PolicyTypes = []NPRule{rule}, []string{"Egress"}
			}
			w.NetPols = append(w.NetPols, np)
		}
		w.AddFeature("complementaryPolicies")
	}
	// holed entire-cluster rule: every port of one protocol but one, towards the whole cluster, next to a specific rule that allows
	// a named port or exactly the missing port (containment tests against an almost-full set that spans both ends of the range)
	if r.P(0.3) {
		wl := rng.Pick(r, w.Workloads)
		ing := r.P(0.5)
		pr := rng.Pick(r, Protos)
		hole := rng.Pick(r, []int{2, 80, 80, 443, 443, 8080, 8080, 65534})
		np := NetPol{Ns: wl.Ns, Name: "holed", PodSel: *SelFor(r, wl.Labels), HasTypes: true}
		wide := NPRule{Peers: []NPPeer{{NsSel: &Sel{}}}, Ports: []NPPort{{Proto: pr, Port: 1, EndPort: hole - 1}, {Proto: pr, Port: hole + 1, EndPort: 65535}}}
		narrowPort := NPPort{Proto: pr, Port: hole}
		if r.P(0.6) {
			narrowPort = NPPort{Proto: pr, Name: rng.Pick(r, PortNames)}
			if nm, ok := map[int]string{80: "http", 443: "dns", 8080: "metrics"}[hole]; ok && r.P(0.6) {
				narrowPort.Name = nm // the name a pod would conventionally give to the missing port
			}
		}
		narrow := NPRule{Peers: []NPPeer{{NsSel: GenSel(r, w, false, 0)}}, Ports: []NPPort{narrowPort}}
		if r.P(0.5) {
			narrow.Peers[0].PodSel = GenSel(r, w, true, 0.2)
		}
		rules := []NPRule{wide, narrow}
		if r.P(0.5) {
			rules = []NPRule{narrow, wide}
		}
		if ing {
			np.Ingress, np.PolicyTypes = rules, []string{"Ingress"}
		} else {
			np.Egress, np.PolicyTypes = rules, []string{"Egress"}
		}
		w.NetPols = append(w.NetPols, np)
		w.AddFeature("holedClusterRule")
	}
	// one rule whose peers mix the whole cluster with a specific selector, next to a rule for every pod of the policy's own namespace on
	// another port: the specific selector keeps a connection of its own whatever the order of the peers inside the rule
	if r.P(0.3) {
		wl := rng.Pick(r, w.Workloads)
		ing := r.P(0.5)
		spec := NPPeer{PodSel: &Sel{ML: map[string]string{rng.Pick(r, Keys): rng.Pick(r, []string{"mon", "x", "a"})}}}
		if r.P(0.4) {
			spec.NsSel = GenSel(r, w, false, 0)
		}
		mixed := NPRule{Peers: []NPPeer{{NsSel: &Sel{}}, spec}, Ports: []NPPort{{Port: rng.Pick(r, []int{8050, 80, 443})}}}
		if r.P(0.5) {
			mixed.Peers[0], mixed.Peers[1] = mixed.Peers[1], mixed.Peers[0]
		}
		own := NPRule{Peers: []NPPeer{{PodSel: &Sel{}}}, Ports: []NPPort{{Port: rng.Pick(r, []int{9090, 81})}}}
		np := NetPol{Ns: wl.Ns, Name: "mixedpeers", PodSel: *SelFor(r, wl.Labels), HasTypes: true}
		rules := []NPRule{mixed, own}
		if ing {
			np.Ingress, np.PolicyTypes = rules, []string{"Ingress"}
		} else {
			np.Egress, np.PolicyTypes = rules, []string{"Egress"}
		}
		w.NetPols = append(w.NetPols, np)
		w.AddFeature("mixedClusterAndSpecificPeers")
	}
	w.AddFeature("canonStress")
	TagNetPolFeatures(w)
}

// AddDefaultNamespaceWorkloads adds workloads (and maybe a policy) that live in namespace "default" because their manifests
// carry no metadata.namespace.
func AddDefaultNamespaceWorkloads(r *rng.R, w *World, c Cfg) {
	if w.NsByName("default") == nil {
		w.Namespaces = append(w.Namespaces, Namespace{Name: "default", HasObj: r.P(0.4), Labels: map[string]string{}})
	}
	n := r.Range(1, 2)
	for i := 0; i < n; i++ {
		wl := Workload{Ns: "default", Name: fmt.Sprintf("d%d", i), Kind: rng.Pick(r, c.Kinds), Labels: randLabels(r, 0.6), Ports: GenCPorts(r, c), OmitNs: true}
		if wl.Kind == KOwnedPods {
			wl.NPods, wl.OwnerKind = 1, KReplicaSet
		}
		w.Workloads = append(w.Workloads, wl)
	}
	if r.P(0.7) {
		np := GenNetPol(r, w, c, "default", "npdefault")
		np.PodSel = *SelFor(r, w.Workloads[len(w.Workloads)-1].Labels)
		np.OmitNs = r.P(0.5)
		if len(np.Ingress) == 0 {
			np.Ingress = []NPRule{{Peers: []NPPeer{{PodSel: &Sel{}}}, Ports: []NPPort{{Port: 80}}}}
		}
		w.NetPols = append(w.NetPols, np)
	}
	w.AddFeature("defaultNamespaceOmitted")
}

// AddIsolatedNamespace adds a namespace whose workloads have NO real connection at all (everything denied in one direction, the other
// direction open only towards selectors nobody satisfies) but ARE exposed to representative peers, and makes a workload of another
// namespace exposed, in the same direction, to a representative peer located in that namespace. Outputs that group peers by namespace
// (dot subgraphs) then have to place real, connection-less workloads and representative peers of one namespace together, whatever the
// order in which the analysis happens to visit them.
func AddIsolatedNamespace(r *rng.R, w *World) {
	x := "iso"
	if w.NsByName(x) != nil {
		return
	}
	w.Namespaces = append(w.Namespaces, Namespace{Name: x, HasObj: r.P(0.5), Labels: map[string]string{}})
	n := r.Range(1, 2)
	for i := 0; i < n; i++ {
		w.Workloads = append(w.Workloads, Workload{Ns: x, Name: fmt.Sprintf("iso%d", i), Kind: KDeployment, Labels: map[string]string{"app": fmt.Sprintf("iso%d", i)}, Ports: []CPort{{Num: 80}}})
	}
	egress := r.P(0.7)
	ghost := func() *Sel {
		return &Sel{ML: map[string]string{"app": rng.Pick(r, []string{"audit", "ghost", "nobody"})}}
	}
	rule := func(p NPPeer) NPRule {
		return NPRule{Peers: []NPPeer{p}, Ports: []NPPort{{Port: rng.Pick(r, PortNums)}}}
	}
	// the isolated namespace: both directions governed; the closed one has no rule, the open one only reaches nobody
	iso := NetPol{Ns: x, Name: "isolate", PodSel: Sel{}, HasTypes: true, PolicyTypes: []string{"Ingress", "Egress"}}
	var open []NPRule
	open = append(open, rule(NPPeer{PodSel: ghost()}))
	if r.P(0.4) && len(w.Workloads) > n {
		open = append(open, rule(NPPeer{PodSel: ghost(), NsSel: &Sel{ML: map[string]string{MetaName: w.Workloads[0].Ns}}}))
	}
	if egress {
		iso.Egress = open
	} else {
		iso.Ingress = open
	}
	w.NetPols = append(w.NetPols, iso)
	// a workload elsewhere, exposed in the same direction to a representative peer located in the isolated namespace
	if len(w.Workloads) > n {
		y := w.Workloads[r.Intn(len(w.Workloads)-n)]
		other := NetPol{Ns: y.Ns, Name: "towards-iso", PodSel: Sel{}, HasTypes: true}
		peer := NPPeer{PodSel: ghost(), NsSel: &Sel{ML: map[string]string{MetaName: x}}}
		if r.P(0.2) {
			peer.PodSel = nil
		}
		if egress {
			other.PolicyTypes = []string{"Egress"}
			other.Egress = []NPRule{rule(peer)}
		} else {
			other.PolicyTypes = []string{"Ingress"}
			other.Ingress = []NPRule{rule(peer)}
		}
		w.NetPols = append(w.NetPols, other)
	}
	w.AddFeature("isolatedNamespace")
}

// AddSharedEgressPolicy: ONE egress policy governs several source workloads alike, while the destination's ingress policy tells those
// sources apart by port: whatever is computed once per (policy, destination) must not leak from one source to the next.
func AddSharedEgressPolicy(r *rng.R, w *World) {
	byNs := map[string][]int{}
	for i, wl := range w.Workloads {
		byNs[wl.Ns] = append(byNs[wl.Ns], i)
	}
	for _, ns := range NsNames {
		idx := byNs[ns]
		if len(idx) < 2 || len(w.Workloads) < 3 {
			continue
		}
		var dst *Workload
		for i := range w.Workloads {
			if i != idx[0] && i != idx[1] {
				dst = &w.Workloads[i]
			}
		}
		if dst == nil {
			return
		}
		s1, s2 := &w.Workloads[idx[0]], &w.Workloads[idx[1]]
		if len(s1.Labels) == 0 {
			s1.Labels = map[string]string{"app": "a"}
		}
		if len(s2.Labels) == 0 || SemEqualLabels(s1.Labels, s2.Labels) {
			s2.Labels = map[string]string{"app": "b", "tier": "c"}
		}
		eg := NetPol{Ns: ns, Name: "shared-egress", PodSel: Sel{}, HasTypes: true, PolicyTypes: []string{"Egress"},
			Egress: []NPRule{{Peers: []NPPeer{{PodSel: SelFor(r, dst.Labels), NsSel: SelFor(r, w.NsLabels(dst.Ns))}}}}}
		if r.P(0.5) {
			eg.Egress[0].Ports = []NPPort{{Port: 1, EndPort: 65535}}
		}
		in := NetPol{Ns: dst.Ns, Name: "per-source-ingress", PodSel: *SelFor(r, dst.Labels), HasTypes: true, PolicyTypes: []string{"Ingress"},
			Ingress: []NPRule{
				{Peers: []NPPeer{{PodSel: SelFor(r, s1.Labels), NsSel: SelFor(r, w.NsLabels(ns))}}, Ports: []NPPort{{Port: rng.Pick(r, []int{80, 443})}}},
				{Peers: []NPPeer{{PodSel: SelFor(r, s2.Labels), NsSel: SelFor(r, w.NsLabels(ns))}}, Ports: []NPPort{{Port: rng.Pick(r, []int{8080, 9187})}}}}}
		// drop other egress policies of that namespace so that exactly one governs the sources
		keep := w.NetPols[:0]
		for _, np := range w.NetPols {
			if !(np.Ns == ns && np.HasDirection(false)) {
				keep = append(keep, np)
			}
		}
		w.NetPols = append(keep, eg, in)
		w.AddFeature("sharedEgressPolicy")
		return
	}
}

// SemEqualLabels: the two label sets are the same.
func SemEqualLabels(a, b map[string]string) bool {
	if len(a) != len(b) {
		return false
	}
	for k, v := range a {
		if x, ok := b[k]; !ok || x != v {
			return false
		}
	}
	return true
}

func minInt(a, b int) int {
	if a < b {
		return a
	}
	return b
}

// AddTwinNamedPortPolicy: when the world holds true twins (same name, kind and labels in two namespaces) an egress rule reaches both of
// them on a NAMED port that the twins declare on different numbers - the name is resolved per destination pod, not per owner name.
func AddTwinNamedPortPolicy(r *rng.R, w *World) {
	if len(w.Workloads) < 3 {
		return
	}
	t0 := &w.Workloads[0]
	for i := 1; i < len(w.Workloads); i++ {
		ti := &w.Workloads[i]
		if ti.Name != t0.Name || ti.Ns == t0.Ns || !SemEqualLabels(ti.Labels, t0.Labels) || len(t0.Labels) == 0 {
			continue
		}
		has := func(wl *Workload, name string, num int) bool {
			for _, cp := range wl.Ports {
				if cp.Name == name || (cp.Num == num && cp.Protocol() == "TCP") {
					return true
				}
			}
			return false
		}
		if has(t0, "web", 8081) || has(ti, "web", 9099) {
			return
		}
		t0.Ports = append(t0.Ports, CPort{Num: 8081, Name: "web", Proto: "TCP"})
		ti.Ports = append(ti.Ports, CPort{Num: 9099, Name: "web", Proto: "TCP"})
		for k := range w.Workloads {
			s := &w.Workloads[k]
			if s.Name == t0.Name {
				continue
			}
			np := NetPol{Ns: s.Ns, Name: "to-twins", PodSel: *SelFor(r, s.Labels), HasTypes: true, PolicyTypes: []string{"Egress"},
				Egress: []NPRule{{Peers: []NPPeer{{NsSel: &Sel{}, PodSel: SelFor(r, t0.Labels)}}, Ports: []NPPort{{Proto: "TCP", Name: "web"}}}}}
			w.NetPols = append(w.NetPols, np)
			w.AddFeature("twinNamedPortPolicy")
			return
		}
		return
	}
}

// AddEverybodyPlusHoledRangeRule adds a policy on one workload whose single rule names every pod of the cluster AND an address block
// with holes side by side - `namespaceSelector: {}` next to `ipBlock: {cidr: 0.0.0.0/0 (or another block), except: [...]}` - usually
// without ports: "everybody" in pod terms must not be taken for everybody in address terms, the excepted addresses stay closed.
func AddEverybodyPlusHoledRangeRule(r *rng.R, w *World) bool {
	if len(w.Workloads) == 0 {
		return false
	}
	x := rng.Pick(r, w.Workloads)
	block := "0.0.0.0/0"
	if r.P(0.25) {
		block = "10.0.0.0/8"
	}
	var ex []string
	for _, e := range []string{"10.1.0.0/16", "10.1.2.0/24", "192.168.0.0/16", "10.1.2.3/32"} {
		if within(e, block) && e != block && r.P(0.5) {
			ex = append(ex, e)
		}
	}
	if len(ex) == 0 {
		ex = []string{"10.1.2.0/24"}
	}
	peers := []NPPeer{{NsSel: &Sel{}}, {IPBlock: &IPB{CIDR: block, Except: ex}}}
	if r.P(0.5) {
		peers[0], peers[1] = peers[1], peers[0]
	}
	rule := NPRule{Peers: peers}
	if r.P(0.25) {
		rule.Ports = []NPPort{{Proto: "TCP", Port: 80}}
	}
	np := NetPol{Ns: x.Ns, Name: "everybody-and-holed-range", PodSel: *SelFor(r, x.Labels), HasTypes: true}
	for _, o := range w.NetPols {
		if o.Ns == np.Ns && o.Name == np.Name {
			return false
		}
	}
	if r.P(0.6) {
		np.Egress, np.PolicyTypes = []NPRule{rule}, []string{"Egress"}
	} else {
		np.Ingress, np.PolicyTypes = []NPRule{rule}, []string{"Ingress"}
	}
	w.NetPols = append(w.NetPols, np)
	w.AddFeature("everybodyPlusHoledRange")
	w.AddFeature("ipBlock")
	w.AddFeature("except")
	return true
}

// GenSealedWorld draws a cluster in which nothing is left open: every namespace has a Namespace object and a default-deny policy for both
// directions, every allow rule names one existing workload by a label equality (the kind of selector an exposure report leaves out
// once a real workload satisfies it), and - most of the time - one workload may talk to an address block. The exposure analysis of
// such an input has nothing to report, while the plain report holds workload and address lines.
func GenSealedWorld(r *rng.R) *World {
	w := &World{}
	nss := []string{"shop"}
	if r.P(0.4) {
		nss = append(nss, "infra")
	}
	for _, n := range nss {
		w.Namespaces = append(w.Namespaces, Namespace{Name: n, HasObj: true, Labels: map[string]string{"team": n}})
		w.NetPols = append(w.NetPols, NetPol{Ns: n, Name: "default-deny", HasTypes: true, PolicyTypes: []string{"Ingress", "Egress"}})
	}
	n := r.Range(2, 5)
	for i := 0; i < n; i++ {
		name := fmt.Sprintf("app%d", i)
		w.Workloads = append(w.Workloads, Workload{Ns: rng.Pick(r, nss), Name: name, Kind: rng.Pick(r, []string{KDeployment, KStatefulSet, KPod, KDaemonSet}),
			Labels: map[string]string{"app": name}, Ports: []CPort{{Num: 8000 + i, Name: "main"}}})
	}
	peerOf := func(from, to *Workload) NPPeer {
		p := NPPeer{PodSel: &Sel{ML: map[string]string{"app": to.Name}}}
		if from.Ns != to.Ns || r.P(0.2) {
			p.NsSel = &Sel{ML: map[string]string{MetaName: to.Ns}}
		}
		return p
	}
	edges := r.Range(1, 4)
	for e := 0; e < edges; e++ {
		i, j := r.Intn(n), r.Intn(n)
		if i == j {
			continue
		}
		s, d := &w.Workloads[i], &w.Workloads[j]
		port := []NPPort{{Proto: "TCP", Port: d.Ports[0].Num}}
		w.NetPols = append(w.NetPols,
			NetPol{Ns: s.Ns, Name: fmt.Sprintf("e%d-out", e), PodSel: Sel{ML: map[string]string{"app": s.Name}}, HasTypes: true, PolicyTypes: []string{"Egress"},
				Egress: []NPRule{{Peers: []NPPeer{peerOf(s, d)}, Ports: port}}},
			NetPol{Ns: d.Ns, Name: fmt.Sprintf("e%d-in", e), PodSel: Sel{ML: map[string]string{"app": d.Name}}, HasTypes: true, PolicyTypes: []string{"Ingress"},
				Ingress: []NPRule{{Peers: []NPPeer{peerOf(d, s)}, Ports: port}}})
	}
	if r.P(0.75) {
		x := &w.Workloads[r.Intn(n)]
		np := NetPol{Ns: x.Ns, Name: "to-addresses", PodSel: Sel{ML: map[string]string{"app": x.Name}}, HasTypes: true}
		rule := NPRule{Peers: []NPPeer{{IPBlock: &IPB{CIDR: rng.Pick(r, []string{"10.1.0.0/16", "192.168.0.0/16", "10.1.2.3/32"})}}}, Ports: []NPPort{{Proto: "TCP", Port: 5432}}}
		if r.P(0.7) {
			np.Egress, np.PolicyTypes = []NPRule{rule}, []string{"Egress"}
		} else {
			np.Ingress, np.PolicyTypes = []NPRule{rule}, []string{"Ingress"}
		}
		w.NetPols = append(w.NetPols, np)
		w.AddFeature("ipBlock")
	}
	w.AddFeature("sealed")
	return w
}
