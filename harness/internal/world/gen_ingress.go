package world

import (
	"fmt"
	"sort"

	"verif/harness/internal/rng"
)

var svcPortNames = []string{"web", "api", "adm"}

// GenIngressResources adds Services, Ingresses and Routes built around existing workloads so that the
// Ingress/Route -> Service -> workload chain is engaged by construction.
func GenIngressResources(r *rng.R, w *World) { GenIngressResourcesTargeting(r, w, nil) }

// GenIngressResourcesTargeting does the same and makes sure the workloads with the given indices are among the targeted ones.
func GenIngressResourcesTargeting(r *rng.R, w *World, must []int) {
	if len(w.Workloads) == 0 {
		return
	}
	nt := r.Range(1, 3)
	if nt < len(must) {
		nt = len(must)
	}
	svcByNs := map[string][]int{}
	for t := 0; t < nt; t++ {
		wl := &w.Workloads[r.Intn(len(w.Workloads))]
		if t < len(must) {
			wl = &w.Workloads[must[t]]
		}
		if len(wl.Labels) == 0 {
			wl.Labels = map[string]string{rng.Pick(r, Keys): rng.Pick(r, Vals)}
		}
		// make sure there are container ports of several protocols
		if len(wl.Ports) == 0 || r.P(0.3) {
			used := map[string]bool{}
			usedN := map[string]bool{}
			for _, p := range wl.Ports {
				used[fmt.Sprintf("%d/%s", p.Num, p.Protocol())] = true
				usedN[p.Name] = true
			}
			for k := r.Range(1, 3); k > 0; k-- {
				p := CPort{Num: rng.Pick(r, PortNums), Proto: rng.Pick(r, []string{"TCP", "", "UDP", "TCP"})}
				key := fmt.Sprintf("%d/%s", p.Num, p.Protocol())
				if used[key] {
					continue
				}
				used[key] = true
				if n := rng.Pick(r, PortNames); !usedN[n] && r.P(0.6) {
					usedN[n] = true
					p.Name = n
				}
				wl.Ports = append(wl.Ports, p)
			}
		}
		// the same port NUMBER declared under another protocol first (QUIC next to HTTPS ...): the TCP declaration is the one that counts
		if r.P(0.2) {
			for pi, cp := range wl.Ports {
				if cp.Protocol() != "TCP" {
					continue
				}
				other := rng.Pick(r, []string{"UDP", "SCTP"})
				dup := false
				for _, x := range wl.Ports {
					if x.Num == cp.Num && x.Protocol() == other {
						dup = true
					}
				}
				if !dup {
					twin := CPort{Num: cp.Num, Proto: other}
					wl.Ports = append(wl.Ports[:pi], append([]CPort{twin}, wl.Ports[pi:]...)...)
					w.AddFeature("portNumberUnderTwoProtocols")
				}
				break
			}
		}
		sv := Service{Ns: wl.Ns, Name: fmt.Sprintf("svc%d", len(w.Services)), Selector: map[string]string{}}
		ks := SortedKeys(wl.Labels)
		k := rng.Pick(r, ks)
		sv.Selector[k] = wl.Labels[k]
		if len(ks) > 1 && r.P(0.3) {
			k2 := rng.Pick(r, ks)
			sv.Selector[k2] = wl.Labels[k2]
		}
		usedPort := map[int]bool{}
		usedName := map[string]bool{}
		for n := r.Range(1, 3); n > 0; n-- {
			sp := SvcPort{Port: rng.Pick(r, []int{80, 8080, 443, 5353, 9090, 81})}
			if usedPort[sp.Port] {
				continue
			}
			usedPort[sp.Port] = true
			if nm := rng.Pick(r, svcPortNames); !usedName[nm] && (r.P(0.6) || n > 1) {
				usedName[nm] = true
				sp.Name = nm
			}
			t := r.Float()
			switch {
			case t < 0.45 && len(wl.Ports) > 0: // number of a container port
				sp.TargetNum = rng.Pick(r, wl.Ports).Num
			case t < 0.7 && len(wl.Ports) > 0: // name of a container port (if it has one)
				cp := rng.Pick(r, wl.Ports)
				if cp.Name != "" {
					sp.TargetName = cp.Name
				} else {
					sp.TargetNum = cp.Num
				}
			case t < 0.85: // defaulted to port
			default:
				sp.TargetNum = rng.Pick(r, []int{9999, 80, 53})
			}
			if r.P(0.15) {
				sp.Proto = rng.Pick(r, []string{"TCP", "UDP"})
			}
			sv.Ports = append(sv.Ports, sp)
		}
		// goal-directed: a port with a named targetPort listed before a port that omits its targetPort
		if len(sv.Ports) > 1 && r.P(0.35) {
			for _, cp := range wl.Ports {
				if cp.Name != "" {
					sv.Ports[0].TargetName, sv.Ports[0].TargetNum = cp.Name, 0
					last := &sv.Ports[len(sv.Ports)-1]
					last.TargetName, last.TargetNum = "", 0
					if len(wl.Ports) > 0 && r.P(0.7) { // the defaulted port hits a container port
						last.Port = rng.Pick(r, wl.Ports).Num
						for i := 0; i < len(sv.Ports)-1; i++ {
							if sv.Ports[i].Port == last.Port {
								last.Port = 9091
							}
						}
					}
					break
				}
			}
		}
		if len(sv.Ports) > 1 { // multi-port services need names
			for i := range sv.Ports {
				if sv.Ports[i].Name == "" {
					for _, nm := range svcPortNames {
						if !usedName[nm] {
							usedName[nm] = true
							sv.Ports[i].Name = nm
							break
						}
					}
				}
			}
		}
		w.Services = append(w.Services, sv)
		svcByNs[sv.Ns] = append(svcByNs[sv.Ns], len(w.Services)-1)
	}
	if r.P(0.15) { // a service selecting nothing
		ns := rng.Pick(r, w.Workloads).Ns
		w.Services = append(w.Services, Service{Ns: ns, Name: "svcnone", Selector: map[string]string{"app": "zzz"}, Ports: []SvcPort{{Port: 80}}})
		svcByNs[ns] = append(svcByNs[ns], len(w.Services)-1)
	}
	backendFor := func(sv *Service) Backend {
		b := Backend{Svc: sv.Name}
		if r.P(0.08) {
			b.Svc = "missing-svc"
		}
		sp := rng.Pick(r, sv.Ports)
		switch {
		case sp.Name != "" && r.P(0.45):
			b.PortName = sp.Name
		case r.P(0.1):
			b.PortNum = 7777 // designates nothing
		case sp.TargetNum != 0 && sp.TargetNum != sp.Port && r.P(0.12):
			b.PortNum = sp.TargetNum // a number that is only a targetPort of this service port (designates nothing, or another port)
		default:
			b.PortNum = sp.Port
		}
		return b
	}
	nsList := []string{}
	for ns := range svcByNs { // every namespace that got a service (also namespaces outside the usual vocabulary)
		if len(svcByNs[ns]) > 0 {
			nsList = append(nsList, ns)
		}
	}
	sort.Strings(nsList)
	if len(nsList) == 0 {
		return
	}
	nobj := r.Range(1, 3)
	for i := 0; i < nobj; i++ {
		ns := rng.Pick(r, nsList)
		svs := svcByNs[ns]
		sv := &w.Services[rng.Pick(r, svs)]
		if r.P(0.55) {
			in := Ingress{Ns: ns, Name: fmt.Sprintf("ing%d", i)}
			if r.P(0.4) {
				b := backendFor(sv)
				in.Default = &b
			}
			nr := r.Range(0, 2)
			if in.Default == nil && nr == 0 {
				nr = 1
			}
			for k := 0; k < nr; k++ {
				rule := []Backend{}
				for p := r.Range(1, 2); p > 0; p-- {
					rule = append(rule, backendFor(&w.Services[rng.Pick(r, svs)]))
				}
				in.Rules = append(in.Rules, rule)
			}
			w.Ingresses = append(w.Ingresses, in)
			w.AddFeature("ingress")
		} else {
			rt := Route{Ns: ns, Name: fmt.Sprintf("route%d", i), To: sv.Name}
			if r.P(0.3) && len(svs) > 1 {
				rt.Alternates = append(rt.Alternates, w.Services[rng.Pick(r, svs)].Name)
				w.AddFeature("routeAlternate")
			}
			sp := rng.Pick(r, sv.Ports)
			t := r.Float()
			switch {
			case t < 0.35: // no port: all service ports
				w.AddFeature("routeNoPort")
			case t < 0.5 && sp.Name != "":
				rt.TargetName = sp.Name
			case t < 0.7 && sp.TargetName != "": // the name of the container port the service port targets (what `oc expose` writes)
				rt.TargetName = sp.TargetName
				w.AddFeature("routeNamedTargetPort")
			case sp.TargetNum != 0:
				rt.TargetNum = sp.TargetNum
			default:
				w.AddFeature("routeNoPort")
			}
			w.Routes = append(w.Routes, rt)
			w.AddFeature("route")
		}
	}
}
