package world

import (
	"fmt"
	"strconv"
	"strings"
)

// ParseIP parses dotted IPv4 into uint32 (own code; the reference side never calls the repository or net/netip).
func ParseIP(s string) (uint32, bool) {
	parts := strings.Split(s, ".")
	if len(parts) != 4 {
		return 0, false
	}
	var v uint32
	for _, p := range parts {
		n, err := strconv.Atoi(p)
		if err != nil || n < 0 || n > 255 {
			return 0, false
		}
		v = v<<8 | uint32(n)
	}
	return v, true
}

func IPString(v uint32) string {
	return fmt.Sprintf("%d.%d.%d.%d", v>>24, (v>>16)&255, (v>>8)&255, v&255)
}

// CIDRRange returns the first and last address of a CIDR.
func CIDRRange(c string) (lo, hi uint32, ok bool) {
	i := strings.IndexByte(c, '/')
	if i < 0 {
		return 0, 0, false
	}
	ip, ok1 := ParseIP(c[:i])
	n, err := strconv.Atoi(c[i+1:])
	if !ok1 || err != nil || n < 0 || n > 32 {
		return 0, 0, false
	}
	var mask uint32
	if n > 0 {
		mask = ^uint32(0) << (32 - uint(n))
	}
	lo = ip & mask
	hi = lo | ^mask
	return lo, hi, true
}

// ParseRange parses "a.b.c.d-e.f.g.h" or a single address or a CIDR.
func ParseRange(s string) (lo, hi uint32, ok bool) {
	if strings.Contains(s, "/") {
		return CIDRRange(s)
	}
	if i := strings.IndexByte(s, '-'); i >= 0 {
		a, ok1 := ParseIP(s[:i])
		b, ok2 := ParseIP(s[i+1:])
		return a, b, ok1 && ok2 && a <= b
	}
	a, ok1 := ParseIP(s)
	return a, a, ok1
}
