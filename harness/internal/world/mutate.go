package world

import (
	"fmt"

	"verif/harness/internal/rng"
)

var shiftCIDR = map[string][]string{
	"10.1.2.0/24":    {"10.1.3.0/24", "10.1.2.0/25", "10.1.2.128/25", "10.1.0.0/16"},
	"10.1.0.0/16":    {"10.0.0.0/16", "10.1.0.0/17", "10.0.0.0/8"},
	"10.0.0.0/8":     {"10.0.0.0/9", "11.0.0.0/8", "10.128.0.0/9"},
	"0.0.0.0/0":      {"0.0.0.0/1", "128.0.0.0/1"},
	"192.168.0.0/16": {"192.168.0.0/17", "192.169.0.0/16"},
	"10.1.2.3/32":    {"10.1.2.4/32", "10.1.2.2/31"},
}

// Mutate applies one edit to a clone of w and returns it with the edit's name.
func Mutate(r *rng.R, w0 *World, c Cfg) (*World, string) {
	w := w0.Clone()
	pickNP := func() *NetPol {
		if len(w.NetPols) == 0 {
			return nil
		}
		return &w.NetPols[r.Intn(len(w.NetPols))]
	}
	for tries := 0; tries < 20; tries++ {
		switch r.Intn(15) {
		case 0:
			if np := pickNP(); np != nil {
				if r.P(0.5) {
					np.Ingress = append(np.Ingress, GenNPRule(r, w, c, np.Ns, false))
				} else {
					np.Egress = append(np.Egress, GenNPRule(r, w, c, np.Ns, true))
				}
				return w, "addRule"
			}
		case 1:
			if np := pickNP(); np != nil {
				if len(np.Ingress) > 0 && r.P(0.5) {
					i := r.Intn(len(np.Ingress))
					np.Ingress = append(np.Ingress[:i], np.Ingress[i+1:]...)
					return w, "dropRule"
				}
				if len(np.Egress) > 0 {
					i := r.Intn(len(np.Egress))
					np.Egress = append(np.Egress[:i], np.Egress[i+1:]...)
					return w, "dropRule"
				}
			}
		case 2:
			if np := pickNP(); np != nil {
				for _, rules := range [][]NPRule{np.Ingress, np.Egress} {
					for ri := range rules {
						for pi := range rules[ri].Ports {
							p := &rules[ri].Ports[pi]
							if p.Port != 0 && r.P(0.5) {
								switch {
								case p.EndPort != 0 && p.EndPort < 65535 && r.P(0.5):
									p.EndPort++
								case p.EndPort == 0 && p.Port > 1 && r.P(0.5):
									p.Port--
								case p.EndPort == 0:
									p.EndPort = p.Port + 1
									if p.EndPort > 65535 {
										p.EndPort = 0
										p.Port = 65534
									}
								default:
									p.Proto = rng.Pick(r, []string{"UDP", "SCTP", "TCP"})
								}
								return w, "editPort"
							}
						}
					}
				}
			}
		case 3, 4:
			if np := pickNP(); np != nil {
				for _, rules := range [][]NPRule{np.Ingress, np.Egress} {
					for ri := range rules {
						for pi := range rules[ri].Peers {
							ib := rules[ri].Peers[pi].IPBlock
							if ib == nil || !r.P(0.6) {
								continue
							}
							if alts, ok := shiftCIDR[ib.CIDR]; ok && r.P(0.7) {
								ib.CIDR = rng.Pick(r, alts)
								keep := []string{}
								for _, e := range ib.Except {
									if within(e, ib.CIDR) {
										keep = append(keep, e)
									}
								}
								ib.Except = keep
								return w, "shiftCIDR"
							}
							if len(ib.Except) > 0 && r.P(0.5) {
								ib.Except = ib.Except[1:]
								return w, "dropExcept"
							}
							for _, e := range CIDRs {
								if within(e, ib.CIDR) {
									dup := false
									for _, x := range ib.Except {
										if x == e {
											dup = true
										}
									}
									if !dup && r.P(0.5) {
										ib.Except = append(ib.Except, e)
										return w, "addExcept"
									}
								}
							}
						}
					}
				}
			}
		case 5:
			if np := pickNP(); np != nil {
				if np.HasTypes {
					np.HasTypes, np.PolicyTypes = false, nil
				} else {
					np.HasTypes, np.PolicyTypes = true, rng.Pick(r, [][]string{{"Ingress"}, {"Egress"}, {"Ingress", "Egress"}})
				}
				return w, "togglePolicyTypes"
			}
		case 6:
			ns := rng.Pick(r, w.Namespaces).Name
			name := fmt.Sprintf("npm%d", len(w.NetPols))
			for taken := true; taken; { // after a drop the count may name a policy that is still there
				taken = false
				for i := range w.NetPols {
					if w.NetPols[i].Ns == ns && w.NetPols[i].Name == name {
						taken, name = true, name+"x"
					}
				}
			}
			w.NetPols = append(w.NetPols, GenNetPol(r, w, c, ns, name))
			return w, "addPolicy"
		case 7:
			if len(w.NetPols) > 0 {
				i := r.Intn(len(w.NetPols))
				w.NetPols = append(w.NetPols[:i], w.NetPols[i+1:]...)
				return w, "dropPolicy"
			}
		case 8:
			ns := rng.Pick(r, w.Namespaces).Name
			name := fmt.Sprintf("wn%d", len(w.Workloads))
			for taken := true; taken; {
				taken = false
				for i := range w.Workloads {
					if w.Workloads[i].Ns == ns && w.Workloads[i].Name == name {
						taken, name = true, name+"x"
					}
				}
			}
			w.Workloads = append(w.Workloads, Workload{Ns: ns, Name: name, Kind: rng.Pick(r, c.Kinds),
				Labels: randLabels(r, 0.55), Ports: GenCPorts(r, c)})
			return w, "addWorkload"
		case 9:
			if len(w.Workloads) > 1 {
				i := r.Intn(len(w.Workloads))
				w.Workloads = append(w.Workloads[:i], w.Workloads[i+1:]...)
				return w, "dropWorkload"
			}
		case 10:
			if len(w.Workloads) > 0 {
				wl := &w.Workloads[r.Intn(len(w.Workloads))]
				if r.P(0.5) {
					wl.Name += "r"
					return w, "renameWorkload"
				}
				for _, k := range []string{KDeployment, KStatefulSet, KDaemonSet, KReplicaSet} {
					if k != wl.Kind && wl.Kind != KOwnedPods && wl.Kind != KPod {
						wl.Kind = k
						return w, "changeKind"
					}
				}
			}
		case 11:
			if len(w.Workloads) > 0 {
				wl := &w.Workloads[r.Intn(len(w.Workloads))]
				wl.Labels = randLabels(r, 0.55)
				return w, "relabelWorkload"
			}
		case 12:
			for i := range w.Namespaces {
				if w.Namespaces[i].HasObj && r.P(0.5) {
					w.Namespaces[i].Labels = randLabels(r, 0.45)
					return w, "relabelNamespace"
				}
			}
		case 13:
			if len(w.ANPs) > 0 {
				a := &w.ANPs[r.Intn(len(w.ANPs))]
				for _, rules := range [][]ANPRule{a.Ingress, a.Egress} {
					if len(rules) > 0 {
						ru := &rules[r.Intn(len(rules))]
						ru.Action = rng.Pick(r, []string{"Allow", "Deny", "Pass"})
						return w, "anpAction"
					}
				}
				i := r.Intn(len(w.ANPs))
				w.ANPs = append(w.ANPs[:i], w.ANPs[i+1:]...)
				return w, "dropANP"
			}
		case 14:
			if r.P(0.3) {
				return nil, "swapWorld"
			}
		}
	}
	return w, "none"
}

// SiblingCIDR returns a CIDR of the same size disjoint from c: its sibling in the parent block (touching) when far is false,
// the sibling of its parent's first half/second half (not touching) when far is true.
func SiblingCIDR(c string, far bool) (string, bool) {
	lo, _, ok := CIDRRange(c)
	if !ok {
		return "", false
	}
	var n int
	fmt.Sscanf(c[indexByte(c, '/')+1:], "%d", &n)
	bit := n - 1
	if far {
		bit = n - 2
	}
	if bit < 0 || n == 0 {
		return "", false
	}
	nlo := lo ^ (uint32(1) << uint(31-bit))
	return fmt.Sprintf("%s/%d", IPString(nlo), n), true
}

func indexByte(s string, b byte) int {
	for i := 0; i < len(s); i++ {
		if s[i] == b {
			return i
		}
	}
	return -1
}

// MoveCIDR moves one ipBlock of one rule to a disjoint block of the same size, keeping the ports: the workload loses a
// connection to one range and gains the textually identical connection to another.
func MoveCIDR(r *rng.R, w0 *World) (*World, bool) {
	w := w0.Clone()
	type loc struct{ ib *IPB }
	locs := []*IPB{}
	for i := range w.NetPols {
		for _, rules := range [][]NPRule{w.NetPols[i].Ingress, w.NetPols[i].Egress} {
			for ri := range rules {
				for pi := range rules[ri].Peers {
					if ib := rules[ri].Peers[pi].IPBlock; ib != nil {
						locs = append(locs, ib)
					}
				}
			}
		}
	}
	if len(locs) == 0 {
		return w, false
	}
	ib := locs[r.Intn(len(locs))]
	nc, ok := SiblingCIDR(ib.CIDR, r.P(0.5))
	if !ok {
		return w, false
	}
	ib.CIDR = nc
	ib.Except = nil
	return w, true
}
