package world

import (
	"sort"
	"strings"

	"verif/harness/internal/rng"
)

// SemKey is a spelling-independent key of a selector: matchLabels k=v and `k In [v]` coincide,
// the order of expressions and of values is irrelevant.
func SemKey(s *Sel) string {
	if s == nil {
		return "<nil>"
	}
	reqs := []string{}
	for _, k := range SortedKeys(s.ML) {
		reqs = append(reqs, k+"=="+s.ML[k])
	}
	for _, e := range s.ME {
		vs := append([]string(nil), e.Vals...)
		sort.Strings(vs)
		if e.Op == "In" && len(vs) == 1 {
			reqs = append(reqs, e.Key+"=="+vs[0])
		} else {
			reqs = append(reqs, e.Key+" "+e.Op+" "+strings.Join(vs, ","))
		}
	}
	sort.Strings(reqs)
	return strings.Join(reqs, ";")
}

func (w *World) eachRuleSel(f func(**Sel)) {
	for i := range w.NetPols {
		np := &w.NetPols[i]
		for _, rules := range [][]NPRule{np.Ingress, np.Egress} {
			for ri := range rules {
				for pi := range rules[ri].Peers {
					p := &rules[ri].Peers[pi]
					if p.PodSel != nil {
						f(&p.PodSel)
					}
					if p.NsSel != nil {
						f(&p.NsSel)
					}
				}
			}
		}
	}
}

func cloneSel(s *Sel) *Sel {
	c := &Sel{}
	if s.ML != nil {
		c.ML = map[string]string{}
		for k, v := range s.ML {
			c.ML[k] = v
		}
	}
	for _, e := range s.ME {
		c.ME = append(c.ME, Req{Key: e.Key, Op: e.Op, Vals: append([]string(nil), e.Vals...)})
	}
	return c
}

// UnifySpellings rewrites the rule selectors of a world so that every semantic selector has one spelling
// (the lexicographically smallest YAML among those present), independent of document order.
func UnifySpellings(w *World) {
	best := map[string]*Sel{}
	w.eachRuleSel(func(p **Sel) {
		k := SemKey(*p)
		if b, ok := best[k]; !ok || SelYAML(*p) < SelYAML(b) {
			best[k] = *p
		}
	})
	w.eachRuleSel(func(p **Sel) {
		k := SemKey(*p)
		// a selector that only names a namespace is spelled the way the tool spells the implicit (nil) namespaceSelector of a
		// policy in that namespace: matchLabels on the name label
		if strings.HasPrefix(k, MetaName+"==") && !strings.Contains(k, ";") {
			*p = &Sel{ML: map[string]string{MetaName: strings.TrimPrefix(k, MetaName+"==")}}
			return
		}
		*p = cloneSel(best[k])
	})
}

// HasMixedSpellings reports whether some semantic rule selector occurs in two spellings.
func HasMixedSpellings(w *World) bool {
	seen := map[string]string{}
	mixed := false
	w.eachRuleSel(func(p **Sel) {
		k, y := SemKey(*p), SelYAML(*p)
		if prev, ok := seen[k]; ok && prev != y {
			mixed = true
		}
		seen[k] = y
	})
	return mixed
}

// PermuteUnordered permutes what the semantics leave unordered: NetworkPolicy rules within a direction, peers and ports within a rule
// (of a NetworkPolicy or of an admin policy).
func PermuteUnordered(r *rng.R, w *World) *World {
	v := w.Clone()
	for i := range v.NetPols {
		np := &v.NetPols[i]
		rng.Shuffle(r, np.Ingress)
		rng.Shuffle(r, np.Egress)
		for _, rules := range [][]NPRule{np.Ingress, np.Egress} {
			for ri := range rules {
				rng.Shuffle(r, rules[ri].Peers)
				rng.Shuffle(r, rules[ri].Ports) // a ports list is a union too
			}
		}
	}
	// admin policies: the RULES are ordered, the peers and the ports inside one rule are not
	admin := [][]ANPRule{}
	for i := range v.ANPs {
		admin = append(admin, v.ANPs[i].Ingress, v.ANPs[i].Egress)
	}
	if v.BANP != nil {
		admin = append(admin, v.BANP.Ingress, v.BANP.Egress)
	}
	for _, rules := range admin {
		for ri := range rules {
			rng.Shuffle(r, rules[ri].Peers)
			rng.Shuffle(r, rules[ri].Ports)
		}
	}
	return v
}
