// Package world holds the abstract description of a cluster input ("world"), its generators and
// its YAML emitter. A world is the single source of truth from which both the manifests given to the
// real code and the reference model's input are derived.
package world

import (
	"crypto/sha256"
	"encoding/hex"
	"encoding/json"
	"sort"
)

// Req is one matchExpressions requirement.
type Req struct {
	Key  string   `json:"key"`
	Op   string   `json:"op"` // In NotIn Exists DoesNotExist
	Vals []string `json:"vals,omitempty"`
}

// Sel is a label selector. A nil *Sel is an absent selector; an empty Sel is `{}`.
type Sel struct {
	ML map[string]string `json:"ml,omitempty"`
	ME []Req             `json:"me,omitempty"`
}

func (s *Sel) IsEmpty() bool { return s == nil || (len(s.ML) == 0 && len(s.ME) == 0) }

// CPort is a container port.
type CPort struct {
	Num   int    `json:"num"`
	Proto string `json:"proto,omitempty"` // "" = defaulted (TCP)
	Name  string `json:"name,omitempty"`
}

func (p CPort) Protocol() string {
	if p.Proto == "" {
		return "TCP"
	}
	return p.Proto
}

// Workload kinds.
const (
	KDeployment  = "Deployment"
	KReplicaSet  = "ReplicaSet"
	KStatefulSet = "StatefulSet"
	KDaemonSet   = "DaemonSet"
	KJob         = "Job"
	KCronJob     = "CronJob"
	KRC          = "ReplicationController"
	KPod         = "Pod"
	KOwnedPods   = "OwnedPods" // bare Pods sharing one controller ownerReference (owner kind OwnerKind)
)

var AllWorkloadKinds = []string{KDeployment, KReplicaSet, KStatefulSet, KDaemonSet, KJob, KCronJob, KRC, KPod, KOwnedPods}

type Workload struct {
	Ns        string            `json:"ns"`
	Name      string            `json:"name"`
	Kind      string            `json:"kind"`
	Labels    map[string]string `json:"labels,omitempty"`
	Ports     []CPort           `json:"ports,omitempty"`
	Replicas  *int              `json:"replicas,omitempty"`
	OwnerKind string            `json:"ownerKind,omitempty"` // for KOwnedPods (default ReplicaSet)
	NPods     int               `json:"npods,omitempty"`     // for KOwnedPods (default 2)
	OmitNs    bool              `json:"omitNs,omitempty"`    // manifest carries no metadata.namespace (only with Ns == "default")
	// ExtraOwners (KOwnedPods): further, non-controller ownerReferences around the controller's: "before-false", "after-false",
	// "before-omitted", "after-omitted", "both-false" (controller: false spelled out, or the field left out)
	ExtraOwners string `json:"extraOwners,omitempty"`
	// Pending (Pod manifests only): the pod has no status yet (no host address, no pod addresses) - as a just re-created pod looks
	Pending       bool   `json:"pending,omitempty"`
	MixedOwnerAPI bool   // KOwnedPods: every other pod records its controller under the older apiVersion of the same kind (as a cluster upgrade leaves behind)
	PerPodLabel   string // KOwnedPods: a label key that carries the pod's own name as its value, as controllers set on the pods of a StatefulSet
	// ObjLabels: labels of the controller object itself (metadata.labels of the Deployment ..., and of a CronJob's jobTemplate): they are
	// labels of the object, not of its pods, and must not matter
	ObjLabels map[string]string `json:"objLabels,omitempty"`
	HostIP    string            `json:"hostIP,omitempty"`
	PodIP     string            `json:"podIP,omitempty"`
}

// PeerKind is the kind printed by the tool in the peer name.
func (w *Workload) PeerKind() string {
	if w.Kind == KOwnedPods {
		if w.OwnerKind == "" {
			return KReplicaSet
		}
		return w.OwnerKind
	}
	return w.Kind
}

// PeerString is the tool's spelling of the workload peer.
func (w *Workload) PeerString() string { return w.Ns + "/" + w.Name + "[" + w.PeerKind() + "]" }

type Namespace struct {
	Name   string            `json:"name"`
	HasObj bool              `json:"hasObj"`
	Labels map[string]string `json:"labels,omitempty"`
}

type IPB struct {
	CIDR   string   `json:"cidr"`
	Except []string `json:"except,omitempty"`
}

type NPPeer struct {
	IPBlock *IPB `json:"ipBlock,omitempty"`
	PodSel  *Sel `json:"podSel,omitempty"`
	NsSel   *Sel `json:"nsSel,omitempty"`
}

// NPPort: Port==0 && Name=="" means protocol-only.
type NPPort struct {
	Proto   string `json:"proto,omitempty"`
	Port    int    `json:"port,omitempty"`
	Name    string `json:"name,omitempty"`
	EndPort int    `json:"endPort,omitempty"`
}

func (p NPPort) Protocol() string {
	if p.Proto == "" {
		return "TCP"
	}
	return p.Proto
}

type NPRule struct {
	Peers []NPPeer `json:"peers,omitempty"`
	Ports []NPPort `json:"ports,omitempty"`
}

type NetPol struct {
	Ns      string   `json:"ns"`
	Name    string   `json:"name"`
	PodSel  Sel      `json:"podSel"`
	Ingress []NPRule `json:"ingress,omitempty"`
	Egress  []NPRule `json:"egress,omitempty"`
	// PolicyTypes nil = defaulted
	PolicyTypes []string `json:"policyTypes,omitempty"`
	HasTypes    bool     `json:"hasTypes,omitempty"`
	OmitNs      bool     `json:"omitNs,omitempty"` // manifest carries no metadata.namespace (only with Ns == "default")
	// EmptySpelling: how a direction WITHOUT rules is written: "" = key omitted, "list" = `egress: []`, "null" = `egress: null`
	EmptySpelling string `json:"emptySpelling,omitempty"`
}

// Governs says whether the policy's (defaulted) policyTypes include the direction.
func (n *NetPol) HasDirection(ingress bool) bool {
	if n.HasTypes {
		for _, t := range n.PolicyTypes {
			if (t == "Ingress") == ingress {
				return true
			}
		}
		return false
	}
	if ingress {
		return true
	}
	return len(n.Egress) > 0
}

// Subject is an ANP subject or ANP peer: exactly one of Namespaces / Pods.
type Subject struct {
	Namespaces *Sel `json:"namespaces,omitempty"`
	PodsNs     *Sel `json:"podsNs,omitempty"`
	PodsPod    *Sel `json:"podsPod,omitempty"`
}

type ANPPort struct {
	Kind  string `json:"kind"` // num range named
	Proto string `json:"proto,omitempty"`
	Port  int    `json:"port,omitempty"`
	End   int    `json:"end,omitempty"`
	Name  string `json:"name,omitempty"`
}

func (p ANPPort) Protocol() string {
	if p.Proto == "" {
		return "TCP"
	}
	return p.Proto
}

type ANPRule struct {
	Name     string    `json:"name,omitempty"`
	Action   string    `json:"action"`
	Peers    []Subject `json:"peers"`
	Ports    []ANPPort `json:"ports,omitempty"`
	HasPorts bool      `json:"hasPorts,omitempty"`
}

type ANP struct {
	Name     string    `json:"name"`
	Priority int       `json:"priority"`
	Subject  Subject   `json:"subject"`
	Ingress  []ANPRule `json:"ingress,omitempty"`
	Egress   []ANPRule `json:"egress,omitempty"`
}

type BANP struct {
	Name    string    `json:"name"`
	Subject Subject   `json:"subject"`
	Ingress []ANPRule `json:"ingress,omitempty"`
	Egress  []ANPRule `json:"egress,omitempty"`
}

type SvcPort struct {
	Name       string `json:"name,omitempty"`
	Port       int    `json:"port"`
	TargetNum  int    `json:"targetNum,omitempty"`
	TargetName string `json:"targetName,omitempty"`
	Proto      string `json:"proto,omitempty"`
}

type Service struct {
	Ns       string            `json:"ns"`
	Name     string            `json:"name"`
	Selector map[string]string `json:"selector,omitempty"`
	Ports    []SvcPort         `json:"ports,omitempty"`
}

// Backend designates a service port by number or name.
type Backend struct {
	Svc      string `json:"svc"`
	PortNum  int    `json:"portNum,omitempty"`
	PortName string `json:"portName,omitempty"`
}

type Ingress struct {
	Ns      string      `json:"ns"`
	Name    string      `json:"name"`
	Default *Backend    `json:"default,omitempty"`
	Rules   [][]Backend `json:"rules,omitempty"` // each rule = list of path backends
}

type Route struct {
	Ns         string   `json:"ns"`
	Name       string   `json:"name"`
	To         string   `json:"to"`
	Alternates []string `json:"alternates,omitempty"`
	// port.targetPort: number or name; both zero = no port
	TargetNum  int    `json:"targetNum,omitempty"`
	TargetName string `json:"targetName,omitempty"`
}

type World struct {
	Namespaces []Namespace `json:"namespaces"`
	Workloads  []Workload  `json:"workloads"`
	NetPols    []NetPol    `json:"netpols,omitempty"`
	ANPs       []ANP       `json:"anps,omitempty"`
	BANP       *BANP       `json:"banp,omitempty"`
	Services   []Service   `json:"services,omitempty"`
	Ingresses  []Ingress   `json:"ingresses,omitempty"`
	Routes     []Route     `json:"routes,omitempty"`
	Features   []string    `json:"features,omitempty"`
}

func (w *World) Clone() *World {
	b, _ := json.Marshal(w)
	var c World
	_ = json.Unmarshal(b, &c)
	return &c
}

func (w *World) Hash() string {
	c := *w
	c.Features = nil
	b, _ := json.Marshal(&c)
	h := sha256.Sum256(b)
	return hex.EncodeToString(h[:8])
}

func (w *World) JSON() json.RawMessage {
	b, _ := json.Marshal(w)
	return b
}

func (w *World) NsByName(n string) *Namespace {
	for i := range w.Namespaces {
		if w.Namespaces[i].Name == n {
			return &w.Namespaces[i]
		}
	}
	return nil
}

// NsLabels returns the effective labels of a namespace (incl. the automatic metadata.name label).
func (w *World) NsLabels(n string) map[string]string {
	out := map[string]string{}
	if ns := w.NsByName(n); ns != nil && ns.HasObj {
		for k, v := range ns.Labels {
			out[k] = v
		}
	}
	if _, ok := out[MetaName]; !ok {
		out[MetaName] = n
	}
	return out
}

const MetaName = "kubernetes.io/metadata.name"

func (w *World) AddFeature(f string) {
	for _, x := range w.Features {
		if x == f {
			return
		}
	}
	w.Features = append(w.Features, f)
}

func SortedKeys(m map[string]string) []string {
	ks := make([]string, 0, len(m))
	for k := range m {
		ks = append(ks, k)
	}
	sort.Strings(ks)
	return ks
}
