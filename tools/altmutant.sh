#!/bin/bash
# Like mutant.sh, but never touches /repo: the patch is applied to a scratch worktree of /repo's HEAD and the checks run against it
# through VERIF_REPO.   tools/altmutant.sh <patch.diff> <Cnn> [more Cnn...]     (VERIF_SEED / TIER are honoured)
set -u
export GOFLAGS=-mod=mod GOPROXY=off GOSUMDB=off GOTOOLCHAIN=local
P="$(readlink -f "$1")"; shift
N=$(basename "$P" .diff); WT=/tmp/alt-$N-$$
git -C /repo worktree add -q --detach $WT HEAD || exit 2
trap 'git -C /repo worktree remove --force '$WT' 2>/dev/null; rm -rf /verif/harness/.build-$(echo '$WT' | md5sum | cut -c1-8)*' EXIT
(cd $WT && git apply "$P") || { echo "patch does not apply"; exit 2; }
(cd $WT && go build ./...) || { echo "BUILD FAILS"; exit 2; }
for ID in "$@"; do
  OUT=$(VERIF_REPO=$WT /verif/check.sh $ID ${TIER:-quick} 2>&1); RC=$?
  echo "mutant $N vs $ID ${TIER:-quick}: rc=$RC violations=$(echo "$OUT" | grep -c '^VIOLATION')"
  echo "$OUT" | grep "violations with sig\|BUILD-FAILED\|^INCONCLUSIVE" | head -5
done
