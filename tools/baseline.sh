#!/bin/bash
# Runs the repository's own suite with the verif tag OFF and compares with BASELINE.json's stable_pass list.
export GOFLAGS=-mod=mod GOPROXY=off GOSUMDB=off GOTOOLCHAIN=local
OUT=${1:-/tmp/baseline.$$.json}
(cd ${REPO_DIR:-/repo} && go test -mod=mod -json -vet=off -count=1 -timeout 25m ./... > "$OUT" 2>/dev/null)
python3 - "$OUT" <<'PY'
import json,sys
base=json.load(open('/root/.vp/BASELINE.json'))
stable=set(base['stable_pass'])
passed=set(); failed=set()
for l in open(sys.argv[1]):
    try: e=json.loads(l)
    except: continue
    if e.get('Test') and e.get('Action') in('pass','fail'):
        k=e['Package']+'::'+e['Test']
        (passed if e['Action']=='pass' else failed).add(k)
missing=sorted(stable-passed)
print('stable_pass',len(stable),'passed now',len(passed),'failed now',len(failed))
print('stable tests not passing now:',len(missing))
for m in missing[:20]: print('  ',m)
newfail=sorted(failed-set(base.get('always_fail',[]))-set(base.get('flaky',[])))
print('failed now:',sorted(failed)[:10])
sys.exit(1 if missing else 0)
PY
RC=$?; rm -f "$OUT"
# failing golden tests leave actual_* files behind; keep only the one that was there from the start
git -C ${REPO_DIR:-/repo} status --short test_outputs | awk '$1=="??"{print $2}' | grep -v actual_ipblockstest_4_connlist_output.txt | while read f; do rm -f "${REPO_DIR:-/repo}/$f"; done
exit $RC
