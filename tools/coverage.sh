#!/bin/bash
# Statement coverage of /repo's packages under the quick tier of all checks: what the workloads actually reach.
# Builds coverage-instrumented copies of the harness and of the CLI in a scratch directory (the registered checks and their evidence are
# not touched), runs every quick check with them, merges the counters of driver, workers and binary runs, and prints per-function
# figures plus the uncovered blocks per file.   tools/coverage.sh [outdir]     (about 10 minutes)
set -u
export GOFLAGS=-mod=mod GOPROXY=off GOSUMDB=off GOTOOLCHAIN=local
OUT=${1:-/tmp/verif-coverage}; rm -rf $OUT; mkdir -p $OUT/data $OUT/evidence
cd /verif/harness || exit 2
# -coverpkg=all: a pattern naming the replaced module's packages instruments nothing in this module setup
go build -cover -coverpkg=all -tags verif -o $OUT/vcheck ./cmd/vcheck || exit 2
(cd /repo && go build -cover -coverpkg=github.com/np-guard/netpol-analyzer/pkg/... -o $OUT/k8snetpolicy ./cmd/netpolicy) || exit 2
export VERIF_ROOT=/verif VERIF_BUILD_DIR=$OUT VERIF_EVIDENCE_DIR=$OUT/evidence VERIF_REPO=/repo GOCOVERDIR=$OUT/data
for id in $(python3 -c "import json;print(' '.join(c['property_id'] for c in json.load(open('/verif/MANIFEST.json'))['checks']))"); do
  $OUT/vcheck run $id quick 2>&1 | grep -E "seed=" | cut -c1-110
done
go tool covdata textfmt -i=$OUT/data -pkg=github.com/np-guard/netpol-analyzer/pkg/... -o $OUT/cov.txt
cd /repo
{
  echo "# statement coverage of github.com/np-guard/netpol-analyzer/pkg/... under the quick tier of all checks ($(git -C /repo log --format=%h -1))"
  go tool cover -func=$OUT/cov.txt | tail -1
  echo "# functions below 100% (test-support packages internal/examples and internal/testutils left out):"
  go tool cover -func=$OUT/cov.txt | grep -v "internal/examples\|internal/testutils\|100.0%\|^total" | awk '{print $NF, $1, $2}' | sed 's|github.com/np-guard/netpol-analyzer/||' | sort -n
} > $OUT/summary.txt
python3 - $OUT <<'PY' >> $OUT/summary.txt
import re,collections,sys
unc=collections.defaultdict(set); cov=collections.defaultdict(int); tot=collections.defaultdict(int)
for l in open(sys.argv[1]+'/cov.txt'):
    if l.startswith('mode:'): continue
    f,sl,sc,el,ec,n,c=re.match(r'(.*):(\d+)\.(\d+),(\d+)\.(\d+) (\d+) (\d+)',l).groups(); f=f.replace('github.com/np-guard/netpol-analyzer/','')
    if 'internal/examples' in f or 'testutils' in f: continue
    tot[f]+=int(n)
    if int(c)==0: unc[f].add((int(sl),int(el)))
    else: cov[f]+=int(n)
print("# uncovered blocks per file (line ranges)")
T=sum(tot.values()); C=sum(cov.values())
print("# without the test-support packages: %d of %d statements = %.1f%%"%(C,T,100.0*C/T))
for f in sorted(tot, key=lambda f: tot[f]-cov[f], reverse=True):
    if tot[f]>cov[f]: print(f, '%d/%d'%(cov[f],tot[f]), ' '.join('%d-%d'%b for b in sorted(unc[f])))
PY
head -3 $OUT/summary.txt; grep "^# without" $OUT/summary.txt
