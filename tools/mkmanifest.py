#!/usr/bin/env python3
"""Regenerates /verif/MANIFEST.json from the table below (run after registering a new check)."""
import json, os, subprocess

ROOT = os.path.dirname(os.path.dirname(os.path.abspath(__file__)))
ids = [json.loads(l)['id'] for l in open(os.path.join(ROOT, 'properties.jsonl'))]

# id -> (category, level text, level note (trusted base), technique, design ref)
CHECKS = {
 'C01': ('exploration',
         "Reference-model monitor over executions of the real library: held on the K generated NetworkPolicy worlds and fixture-derived worlds (the shipped manifest directories as shipped, re-emitted and after 1..k single-step edits) listed in the evidence, each compared on all workload pairs x 3x65535 points and on every address atom; says nothing about worlds not drawn. Right level because the property is an input-universal semantic equivalence that only an independent executable model observed against real runs can refute.",
         "Trusts the independent reference model (own selector matcher, CIDR arithmetic, bitsets), the YAML emitter, Go runtime; inputs API-admissible, IPv4.",
         "runtime monitoring: reference-model oracle over observed list results", "DESIGN.md §5 C01"),
 'C02': ('exploration',
         "Reference-model monitor (ANP>NP>BANP scan semantics of the statement) plus a relational monitor over three document orders of the same policies; held on the K precedence scenarios, random admin worlds and fixture-derived worlds (shipped directories with admin policies, as shipped / re-emitted / edited; list and eval routes, the engine built from the objects and filled by InsertObject) in the evidence.",
         "Trusts the reference model's reading of the statement; distinct priorities/names as the API requires.",
         "runtime monitoring: reference-model oracle + order-permutation relational monitor", "DESIGN.md §5 C02"),
 'C04': ('exploration',
         "Relational monitor over five recorded runs per case (list A, list B, diff AB, diff BA, diff AA): every workload pair and every (workload, address atom, direction) is checked for cover count, type, both connection values and new/lost flags. Held on the K world pairs and pairs of shipped manifest directories in the evidence.",
         "list results are the reference; atoms come from the range boundaries of both reports and all diff entries.",
         "runtime monitoring: point-wise relational oracle over recorded list/diff runs", "DESIGN.md §5 C04"),
 'C05': ('exploration',
         "Invariant monitor walking every returned []Peer2PeerConnection/[]Peer of six world families (NP, canonicalisation stress, ANP/BANP, Ingress/Route, exposure, focus) through both library entry points. Held on the K results in the evidence.",
         "IP ranges parsed from Peer.IP() with our own parser; API-admissible inputs.",
         "runtime monitoring: structural invariant monitor on returned results", "DESIGN.md §5 C05"),
 'C14': ('exploration',
         "Purely relational monitor over pairs of real list runs related by one single-step edit (add rule / add policy on governed or ungoverned pods / five equivalent re-spellings): inclusion, equality and locality are checked point-wise on bitsets and address atoms without any semantic model of the policies. Held on the K (world, edit) pairs in the evidence.",
         "Only the selector matcher and the policyTypes defaulting rule (to decide which pods a new policy selects/governs) are trusted.",
         "runtime monitoring: metamorphic relational oracle over paired list runs", "DESIGN.md §5 C14"),
 'C16': ('exploration',
         "Relational monitor over two library runs per (input, W): the focused entries must be exactly the unfocused entries touching a workload that matches W (or the ingress controller), with identical connections; nothing matching => empty + warning + nil error. Held on the K (world, W) pairs in the evidence.",
         "The filter is recomputed from the unfocused run's peer accessors.",
         "runtime monitoring: relational filter oracle over paired list runs", "DESIGN.md §5 C16"),
 'C13': ('fault_enumeration',
         "Fault enumeration over (junk kind, placement) cells applied to sampled valid worlds; relational monitors over paired real runs (with/without junk, stop-on-error on/off, list/diff) plus severe-entry counting. Every cell is run in every tier; held on the cells x worlds in the evidence.",
         "Broken content is injected as whole files (a syntax error ends its own file); the resource-info route is judged only when the scan itself reported no error.",
         "runtime monitoring: fault injection (documents/files) + relational oracle over paired runs", "DESIGN.md §5 C13"),
 'C17': ('exploration',
         "Relational monitor over re-expressed inputs (nine workload expressions x replica counts) plus counting invariants on the returned peers; committed witnesses of the two known name-collision findings are replayed first. Held on the K worlds x 3 re-expressions in the evidence.",
         "Workload identity is (namespace, name, kind); labels/ports copied verbatim into every expression.",
         "runtime monitoring: metamorphic relational oracle + peer-count invariant", "DESIGN.md §5 C17"),
 'C18': ('exploration',
         "Byte comparison between child-process runs of the freshly built binary and in-process library calls with the same options over a random flag matrix (list and diff), -f file vs stdout, exit status vs returned error, and ConnlistFromResourceInfos vs ConnlistFromDirPath connections. Held on the K invocations in the evidence.",
         "Relies on run-to-run determinism (C08); logs go to stderr and are not compared.",
         "runtime monitoring: differential oracle between binary and library executions", "DESIGN.md §5 C18"),
 'C19': ('fault_enumeration',
         "Fault enumeration: 7 conflict kinds x 13 sizes of the surrounding admin-policy set (both sides of the sort algorithm switch at 12) x 5 positions x {list, diff dir1, diff dir2}; every cell is run with the conflict (must be rejected with a fatal, identifying error and no report) and as a conflict-free twin (must analyse cleanly). The quick tier runs every cell once, the thorough tier 12 fillers per cell.",
         "'Naming the conflict' = message contains a conflicting resource name, the offending priority, or baseline/default for BANP kinds.",
         "runtime monitoring: fault enumeration (conflicting resources) with twin control runs", "DESIGN.md §5 C19"),
 'C03': ('exploration',
         "Relational monitor between recorded list results and CheckIfAllowed answers over three routes (engine from objects, engine filled by InsertObject in document order, the built binary): every pod pair, pod<->address and pod-to-itself at every rule boundary +-1 x protocols. Held on the K worlds / Q queries in the evidence.",
         "list is the reference; boundary+-1 sampling visits every piece of two piece-wise constant functions; numeric ports only.",
         "runtime monitoring: differential oracle between list results and eval answers (library + binary)", "DESIGN.md §5 C03"),
 'C15': ('exploration',
         "History + executable model: recorded sequential histories of InsertObject/DeleteObject/SetResources calls with a fixed query set after every step; each answer of the history engine is compared with a fresh engine built from the current objects (and the reference model); the engine's cache-hit counter (verif hook) identifies answers served from the cache, the event the no-leak clause is about. Held on the K histories / Q queries in the evidence.",
         "Histories are sequential (the property quantifies over interleavings of calls, not threads), so refinement against the fresh engine is exact; model state = objects of the successful calls.",
         "runtime monitoring: recorded call histories checked against a fresh-engine/model oracle, cache-hit hook", "DESIGN.md §5 C15"),
 'C11': ('exploration',
         "History + executable model on the REAL ConnectionSet/PortSet types (alias export): random operation programs over a pool of live values, after every step every value is compared with a three-bitset model, operands are checked unmodified, alias probes (incl. the in-place port mutators) must not show through other values, canonicity/Equal/String/ContainedIn are checked; named-port values only for the clauses the statement makes. Held on the K programs in the evidence.",
         "Operand space = values reachable from MakeConnectionSet and single-protocol sets through the listed operations.",
         "runtime monitoring: operation histories on live values checked against an executable set model", "DESIGN.md §5 C11"),
 'C12': ('exploration',
         "The Go runtime's own checks (nil dereference, bounds, type assertion, stack exhaustion) are the sanitizer; the monitor observes them at the boundary (recover() around every library call, journalled worker processes, exit status and stderr of the binary, watchdog). Workload: the exhaustive list of single structural mutations of 25 base documents, sampled multi-mutations, byte-level mutations, run through list, list --exposure, diff both ways, the eval engine (insert, query, delete) and the binary; the thorough tier repeats a slice under a -race (checkptr) build. Held on the K mutated inputs in the evidence.",
         "Every crash is visible to recover(), the journal or the child's exit status; watchdog 180 s per case.",
         "runtime monitoring: crash/termination monitor (runtime checks as sanitizer) over structural input mutation", "DESIGN.md §5 C12"),
 'C10': ('exploration',
         "Reference-model monitor for the Ingress/Route -> Service -> workload chain composed with the policy model for an arbitrary unlabelled source; every workload's {ingress-controller} line is compared with the model (presence, exact ports) and blocked backends must be named by a warning. The committed witness of the known finding (Ingress number read as targetPort) is replayed first. Held on the K worlds in the evidence.",
         "Designations the statement leaves ambiguous are not generated; service selectors non-empty; service port protocols TCP/defaulted.",
         "runtime monitoring: reference-model oracle over observed list results and warnings", "DESIGN.md §5 C10"),
 'C06': ('exploration',
         "Three monitors over exposure runs of the real library: (a) relational - base connectivity with and without the flag, point-wise; (b) protected flags against the model's 'governed' predicate; (c) reference-model soundness of every reported entry on hypothetical pods enumerated exhaustively over the vocabulary (label sets x existing/new namespaces x named-port declarations). Held on the K worlds / P hypothetical pods in the evidence.",
         "Own selector matcher; entry selectors via the public API, named ports via the alias export; residual named ports of ingress entries denote nothing.",
         "runtime monitoring: reference-model oracle on hypothetical pods + relational oracle over paired runs", "DESIGN.md §5 C06"),
 'C07': ('exploration',
         "Reference-model completeness monitor: for every protected (workload, direction) and every hypothetical pod of the exhaustive vocabulary enumeration, the points allowed through non-omitted rule peers must be covered by the union of the entire-cluster exposure and the entries the pod satisfies. Held on the K worlds / P hypothetical pods in the evidence.",
         "The documented omission is applied generously (can only weaken the oracle); same API reading as C06.",
         "runtime monitoring: reference-model coverage oracle on hypothetical pods", "DESIGN.md §5 C07"),
 'C08': ('exploration',
         "Byte-equality monitor over recorded groups of executions of one resource set: V layout variants (shuffled documents, one file per document, nested directories, permuted rules/peers) x R repetitions in fresh analyzers x list txt/json/csv/md/dot x exposure off/on + diff txt/csv/md/dot, a slice through the binary (fresh process, fresh hash seed); the number of distinct internal iteration orders seen is measured from the returned []Peer order. Held on the K inputs / N outputs in the evidence.",
         "Only the map orders the runtime actually produced are observed; evidence states how many distinct orders were seen.",
         "runtime monitoring: determinism monitor over repeated executions under varied layouts and map orders", "DESIGN.md §5 C08"),
 'C09': ('exploration',
         "Round-trip monitor: every result is rendered by the real formatters in all formats (list txt/json/csv/md/dot, diff txt/csv/md/dot) and parsed back by our own parsers; the parsed tuple sets must be equal across formats and equal to the tuples read from the API result (connections compared as parsed (protocol, port) sets, exposure peer names compared token-exactly with the API selectors, diff annotations incl. dot node colours). Held on the K results x formats in the evidence.",
         "Our parsers and the dot id -> name mapping; an empty diff prints nothing in any format.",
         "runtime monitoring: round-trip (parse-back) oracle over formatter outputs of observed results", "DESIGN.md §5 C09"),
}

NOT_YET = "check not built yet (construction in progress, see DESIGN.md section 9)"

hooks_commits = []
try:
    out = subprocess.run(['git', '-C', '/repo', 'log', '--format=%H %s'], capture_output=True, text=True).stdout
    for l in out.splitlines():
        h, s = l.split(' ', 1)
        if s.startswith('verif hooks'):
            hooks_commits.append(h)
except Exception:
    pass

m = {
 "version": 1,
 "setup_cmd": "./check.sh setup",
 "hooks": {
  "guard": "verif",
  "enable": "go build -tags verif ./cmd/vcheck in /verif/harness (module replace github.com/np-guard/netpol-analyzer => /repo); hook files are new files carrying //go:build verif",
  "baseline_off_cmd": "cd /repo && go test -mod=mod -json -vet=off -count=1 -timeout 25m ./...",
  "source_commits": hooks_commits,
  "add_only": True,
 },
 "engines": [
  {"name": "vcheck", "path": "harness/cmd/vcheck", "serves_properties": sorted(CHECKS),
   "kind_free_text": "Go driver + worker processes running the real library/binary built from /repo's working tree under generated workloads; monitors = reference model, relational oracles, invariant walkers (runtime monitoring)"},
 ],
 "checks": [],
 "notes": "Every check: ./check.sh <id> <tier> rebuilds the harness and the k8snetpolicy binary from /repo's working tree (tag verif), runs a (tier,seed)-determined case list, writes evidence/<id>.json; exit 0 held / 1 VIOLATION / 2 build failure / 3 inconclusive. Known findings: KNOWN_FINDINGS.txt.",
 "not_applicable": [],
}
for i in ids:
    if i in CHECKS:
        cat, text, note, tech, ref = CHECKS[i]
        m["checks"].append({
            "property_id": i,
            "quick_cmd": "./check.sh %s quick" % i,
            "thorough_cmd": "./check.sh %s thorough" % i,
            "evidence_file": "evidence/%s.json" % i,
            "replay_cmd_template": "./check.sh replay {path}",
            "engine": "vcheck",
            "level_claimed": {"category": cat, "text": text, "design_ref": ref},
            "level_note": note,
            "technique": tech,
        })
    else:
        m["not_applicable"].append({"property_id": i, "reason": NOT_YET})
json.dump(m, open(os.path.join(ROOT, 'MANIFEST.json'), 'w'), indent=1)
print("checks:", len(m["checks"]), "not_applicable:", len(m["not_applicable"]))
