#!/bin/bash
# Sensitivity sweep helper: apply one patch to /repo, run a check, undo the patch straight afterwards.
#   tools/mutant.sh <patch.diff> <Cnn> [tier]      exit 0 = check fired (exit 1 with VIOLATION), 1 = missed, 2 = other
set -u
P="$(readlink -f "$1")"; ID="$2"; TIER="${3:-quick}"
cd /repo || exit 2
if ! git apply --check "$P" 2>/dev/null; then echo "patch does not apply: $P"; exit 2; fi
git apply "$P"
trap 'cd /repo && git apply -R "$P" 2>/dev/null || git checkout -- pkg cmd' EXIT
OUT="$(/verif/check.sh "$ID" "$TIER" 2>&1)"; RC=$?
NV=$(echo "$OUT" | grep -c '^VIOLATION')
echo "$OUT" | grep -E '^(VIOLATION|  monitor|BUILD-FAILED|INCONCLUSIVE)' | head -6
echo "$OUT" | tail -3 | head -1
echo "mutant $(basename "$P") vs $ID $TIER: exit=$RC violations=$NV"
if [ $RC -eq 1 ] && [ $NV -gt 0 ]; then exit 0; fi
if [ $RC -eq 0 ]; then exit 1; fi
exit 2
