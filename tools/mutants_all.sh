#!/bin/bash
# Sensitivity regression: every hand-made mutant (mutants/Cnn-*.diff) against the quick tier of its check, each in a scratch worktree
# (tools/altmutant.sh); prints one line per mutant.   tools/mutants_all.sh [pattern]
cd /verif
for P in mutants/${1:-}*.diff; do
  ID=$(basename $P | cut -c1-3)
  case $(basename $P) in M-revert-019b5d8*) ID=C07;; M-revert-stop*) ID=C18;; M-revert-key-concatenation*) ID=C07;; M-revert-kind-group*) ID=C13;;
    M-revert-diff-format*) ID=C18;; M-revert-fake-pod*) ID=C12;; M-revert-rejected-anp*) ID=C15;; esac
  OUT=$(tools/altmutant.sh $P $ID 2>&1)
  echo "$(basename $P .diff): $(echo "$OUT" | grep -E "rc=|does not apply|BUILD" | head -1)"
done
