#!/bin/bash
# runs every registered check at one tier and prints one line per check with its exit code
TIER=${1:-quick}
cd /verif
for id in $(python3 -c "import json;print(' '.join(c['property_id'] for c in json.load(open('MANIFEST.json'))['checks']))"); do
  S=$(date +%s)
  OUT=$(./check.sh $id $TIER 2>&1); RC=$?
  E=$(( $(date +%s) - S ))
  echo "$id rc=$RC ${E}s $(echo "$OUT" | grep -c '^VIOLATION') violations, $(echo "$OUT" | grep -c '^KNOWN-FINDING') known; $(echo "$OUT" | grep '^INCONCLUSIVE' | cut -c1-200)"
done
