#!/bin/bash
# Evaluate a seeded change delivered by a sub-agent in a scratch worktree:
#   tools/seedeval.sh <name> <worktree> <Cnn> [more Cnn...]
# 1. confirm in the worktree: suite unchanged with the change, demo fails with / passes without it
# 2. keep it under /verif/seeded/<name>/
# 3. apply patch.diff to /repo, run the named checks (quick), undo straight afterwards
set -u
NAME="$1"; WT="$2"; shift 2
export GOFLAGS=-mod=mod GOPROXY=off GOSUMDB=off GOTOOLCHAIN=local
cd "$WT" || exit 2
DEMO=$(python3 -c "import json;print(json.load(open('SEED/meta.json'))['demo_cmd'])")
echo "== demo: $DEMO"
git diff --quiet && { echo "worktree has no change applied; applying SEED/patch.diff"; git apply SEED/patch.diff || exit 2; }
go build ./... || { echo "BUILD FAILS with change"; exit 2; }
( eval "$DEMO" ) > /tmp/seed.$NAME.with.log 2>&1; RC_WITH=$?
REPO_DIR="$WT" /verif/tools/baseline.sh > /tmp/seed.$NAME.suite.log 2>&1; RC_SUITE=$?
git apply -R SEED/patch.diff || { echo "cannot revert"; exit 2; }
( eval "$DEMO" ) > /tmp/seed.$NAME.without.log 2>&1; RC_WITHOUT=$?
git apply SEED/patch.diff
echo "demo with change rc=$RC_WITH (want !=0), without rc=$RC_WITHOUT (want 0), suite rc=$RC_SUITE (want 0): $(head -2 /tmp/seed.$NAME.suite.log | tr '\n' ' ')"
if [ $RC_WITH -eq 0 ] || [ $RC_WITHOUT -ne 0 ] || [ $RC_SUITE -ne 0 ]; then echo "SEED NOT CONFIRMED"; exit 1; fi
mkdir -p /verif/seeded/$NAME
rm -rf /verif/seeded/$NAME/*; cp -r SEED/* /verif/seeded/$NAME/
# run the checks against a FRESH scratch worktree of /repo's current HEAD with the change applied (VERIF_REPO), so that /repo itself
# stays untouched and nothing else that is running against /repo is disturbed; equivalent to `git -C /repo apply` + check + undo
RUNWT=/tmp/seedrun-$NAME
git -C /repo worktree remove --force $RUNWT 2>/dev/null
git -C /repo worktree add -q --detach $RUNWT HEAD || exit 2
trap 'git -C /repo worktree remove --force '$RUNWT' 2>/dev/null; rm -rf /verif/harness/.build-$(echo '$RUNWT' | md5sum | cut -c1-8)' EXIT
cd $RUNWT; git apply /verif/seeded/$NAME/patch.diff || { echo "patch does not apply to current HEAD"; exit 2; }
RES=""
for ID in "$@"; do
  OUT=$(VERIF_REPO="$RUNWT" /verif/check.sh $ID quick 2>&1); RC=$?
  NV=$(echo "$OUT" | grep -c '^VIOLATION')
  echo "== $ID quick: rc=$RC violations=$NV"
  echo "$OUT" | grep "violations with sig\|BUILD-FAILED" | head -5
  RES="$RES $ID:rc=$RC:viol=$NV"
done
echo "RESULT $NAME$RES"
