#!/usr/bin/env python3
# Writes the task files for seeding sub-agents: tools/seedprompts.py <suffix> <style> Cnn...   (style: hardening | refactor | twosite | sequence)
# Each file holds ONLY the property record, one-line summaries of the changes already seeded for it (so that a new one differs), and
# the rules of the exercise; nothing else from /verif is shown to a sub-agent. Files go to /tmp/seed/prompts/<Cnn><suffix>.txt.
import json,glob,os,sys
suffix,style,ids=sys.argv[1],sys.argv[2],sys.argv[3:]
props={json.loads(l)['id']:l.strip() for l in open('/verif/properties.jsonl')}
taken={}
for d in sorted(glob.glob('/verif/seeded/*')):
    n=os.path.basename(d); pid=n[:3]
    m=json.load(open(d+'/meta.json'))
    taken.setdefault(pid,[]).append(m.get('summary','')[:130].replace('\n',' '))
STYLE={
'twosite':'''This time the change must consist of TWO (or three) small edits at DIFFERENT sites - different functions, preferably different files or packages - that each look harmless and each, applied ALONE, leave the property intact (or are a pure no-op): for instance one site changes a representation or an invariant that used to hold (a default value, nil versus empty, a normalisation, the format of a map key, the order of a slice, which of two equivalent fields is filled in, when a lazily computed field is filled in, what a helper returns for an edge case) and another site - a consumer written against the old assumption, or a second producer that is not updated - now disagrees with it; or a value is computed in one place and a stale copy of it is used in another. A reviewer looking at either hunk separately would approve it. The property breaks only when both edits are present AND a rare but VALID input (or sequence of API calls) makes the two sites meet. In meta.json add a field "alone": one sentence per hunk saying why that hunk alone is harmless.''',
'sequence':'''This time the breakage must depend on a SEQUENCE or on STATE: it shows only after a particular series of steps (API calls on a PolicyEngine or analyzer object used more than once, a second analysis by the same object, the second of two directories, the n-th element of a list, a later document of a multi-document file, a later file of a directory, an object that is seen AFTER another object it relates to rather than before), or depends on the relative ORDER of otherwise valid items (files, documents, rules, peers, ports, owner references, policies), never on a single isolated item. Typical mechanisms: a variable hoisted out of a loop and not reset, a buffer or slice reused across iterations, state kept on a struct between calls, an early "already seen" shortcut, a first-wins / last-wins choice, an index that is off only past the first element, a map entry overwritten by a later equal key. The first / only / common case must behave exactly as before.''',
'hardening':'''This time the change must read like a well-meant HARDENING or FEATURE pull request: an added validation or sanity check ("reject / skip inputs that look wrong"), defensive normalisation of input (trimming, lower-casing, defaulting, de-duplicating), better error handling (turning a warning into an error or the reverse, returning early on a condition deemed impossible), support for one more field or spelling of a manifest, a new convenience in the CLI. The addition is right for the inputs its author had in mind and wrong for a rare but VALID input it did not think of (a valid manifest is rejected or altered, a legal value is normalised away, an early return skips work that mattered, the new field is honoured on one code path only).''',
'refactor':'''This time the change must read like a CLEAN-UP / REFACTORING pull request that claims to change no behaviour: two similar functions merged into one with a parameter, a hand-written loop replaced by a library call (slices / maps / strings / sort helpers), a struct or map key simplified, a helper extracted and reused at a second call site where the precondition differs slightly, a pointer receiver turned into a value (or the reverse), a slice reused instead of copied, a condition "simplified", an order of two steps exchanged for readability, a sort made "simpler", a string built with another formatter. It is equivalent to the old code for all common inputs and differs for a rare but VALID one.''',
}[style]
T='''You are helping to evaluate a verification framework by seeding a realistic, subtle defect into a Go code base.

Work ONLY inside the git worktree at /tmp/seed/@N@ (a checkout of the repository np-guard/netpol-analyzer: a Go library + CLI `k8snetpolicy` that evaluates Kubernetes NetworkPolicy / AdminNetworkPolicy / BaselineAdminNetworkPolicy manifests and lists / diffs / evaluates allowed connectivity). Do NOT touch /repo or /verif, do not read anything under /verif, do not commit, do not push. The sandbox has no network. Every shell call needs: export GOFLAGS=-mod=mod GOPROXY=off GOSUMDB=off GOTOOLCHAIN=local

The semantic property under attack (one record, JSON):
@PROP@

Earlier attempts already seeded the following changes for this property; you must choose a clearly DIFFERENT code site and mechanism:
@TAKEN@
@STYLE@

Your job: produce ONE change to the repository's non-test Go sources (under pkg/ or cmd/) that BREAKS this property while
 (a) the code still compiles (`go build ./...`),
 (b) the repository's existing test suite still passes exactly as before: run `go test -vet=off -count=1 ./... 2>&1 | grep -E "^(ok|FAIL|---)"` before and after (also compare the indented subtest lines `    --- FAIL`); on the unchanged tree the only failures are the 4 known ones about `ipblockstest_4` (TestConnListFromDir/ipblockstest_4, TestConnListFromResourceInfos/ipblockstest_4 and their parents) - your change must not add any failure,
 (c) the breakage needs something SPECIFIC to manifest - an unusual but valid input, a particular combination of features, a boundary value, a particular order - NOT something that ordinary use or the most common inputs would expose at once,
 (d) it looks like something a real developer could plausibly write.

Deliver, inside /tmp/seed/@N@/SEED/ (create it):
 - patch.diff : `git diff` of your change (only the source change, not the demo),
 - a demonstration: either a Go test file (e.g. SEED/demo_test.go with instructions where to copy it, or a test placed in a package dir and ALSO copied to SEED/) or a small script + input manifests (SEED/demo.sh with SEED/input/...), that FAILS (exit code != 0 or a failing test) with your change applied and PASSES on the unchanged code. The demo must run offline and take less than a minute. Prefer a demo that uses the public API (pkg/netpol/connlist, pkg/netpol/eval, pkg/netpol/diff) or the CLI built with `go build -o /tmp/k8snp-@N@ ./cmd/netpolicy`. A Go test file inside SEED/ must carry a build tag (e.g. //go:build seeddemo) or a .txt suffix so that `go test ./...` does not pick it up.
 - meta.json : {"property": "@ID@", "summary": "<one sentence: what the change does>", "needs": "<what specific input/sequence/order is needed for it to manifest>", "files": ["..."], "demo_cmd": "<exact command to run the demo from the worktree root>", "suite_unchanged": true}

Verify yourself: (1) with the change: build ok, suite unchanged, demo FAILS; (2) `git stash` (or `git apply -R SEED/patch.diff`) : demo PASSES; then re-apply the change so that the worktree ends WITH your change applied. Report back in a few lines: the summary, what is needed for it to manifest, and the demo command with its observed pass/fail results. Keep it focused: one good seeded defect is the goal; do not spend time on anything else. Aim to finish within about 25 minutes.
'''
os.makedirs('/tmp/seed/prompts',exist_ok=True)
for pid in ids:
    n=pid+suffix
    t=T.replace('@STYLE@',STYLE).replace('@N@',n).replace('@PROP@',props[pid]).replace('@TAKEN@','\n'.join(' - '+x for x in taken.get(pid,[]))).replace('@ID@',pid)
    open('/tmp/seed/prompts/%s.txt'%n,'w').write(t)
print(len(ids),'task files in /tmp/seed/prompts')
