#!/bin/bash
# Detection regression: every kept seeded change (seeded/<name>/patch.diff) is applied to a scratch worktree of /repo's HEAD and the
# quick tier of the check named in its meta.json (breaks_property) is run against it through VERIF_REPO. One line per seed.
#   tools/seeds_all.sh [name-pattern]
export GOFLAGS=-mod=mod GOPROXY=off GOSUMDB=off GOTOOLCHAIN=local
cd /verif
for D in seeded/${1:-C}*; do
  N=$(basename $D); ID=$(python3 -c "import json;m=json.load(open('$D/meta.json'));print(m.get('caught_by') or m.get('breaks_property','${N:0:3}'))")   # caught_by: the change belongs to a neighbouring property's mechanism (say a stale cache entry) and is caught there
  NEUT=$(python3 -c "import json;print(json.load(open('$D/meta.json')).get('neutralised_by',''))")
  [ -n "$NEUT" ] && { echo "$N: neutralised by repair $NEUT (its only trigger is gone on the current HEAD; caught on the tree it was written for)"; continue; }
  OUTS=$(python3 -c "import json;print(json.load(open('$D/meta.json')).get('outside_property',''))")
  [ -n "$OUTS" ] && { echo "$N: kept for the record, judged outside the property ($OUTS)"; continue; }
  WT=/tmp/seedall-$N-$$
  git -C /repo worktree add -q --detach $WT HEAD || { echo "$N: worktree failed"; continue; }
  PATCH=$(ls /verif/$D/patch.rebased-*.diff 2>/dev/null | tail -1); PATCH=${PATCH:-/verif/$D/patch.diff}   # a seed whose code site a later repair rewrote carries a rebased patch
  if (cd $WT && (git apply $PATCH 2>/dev/null || git apply --3way $PATCH 2>/dev/null)); then
    if (cd $WT && go build ./... 2>/dev/null); then
      OUT=$(VERIF_REPO=$WT ./check.sh $ID quick 2>&1); RC=$?
      echo "$N: $ID quick rc=$RC violations=$(echo "$OUT" | grep -c '^VIOLATION') $(echo "$OUT" | grep 'violations with sig' | head -2 | tr -s ' ' | tr '\n' ';')"
    else echo "$N: does not build on the current HEAD"; fi
  else echo "$N: patch does not apply to the current HEAD"; fi
  git -C /repo worktree remove --force $WT 2>/dev/null; rm -rf /verif/harness/.build-$(echo $WT | md5sum | cut -c1-8)
done
