#!/bin/bash
# Specificity sweep: behaviour-preserving refactorings (/verif/refactors/*.diff) are applied to a scratch worktree of /repo's HEAD;
# the repository suite must be unchanged and NO check may fire or become inconclusive.   tools/specificity.sh [Rn-name.diff ...]
export GOFLAGS=-mod=mod GOPROXY=off GOSUMDB=off GOTOOLCHAIN=local
cd /verif
LIST="${@:-$(ls refactors/*.diff)}"
for P in $LIST; do
  N=$(basename $P .diff); WT=/tmp/spec-$N
  git -C /repo worktree remove --force $WT 2>/dev/null; git -C /repo worktree add -q --detach $WT HEAD || exit 2
  (cd $WT && git apply /verif/refactors/$N.diff) || { echo "$N: patch does not apply"; continue; }
  SUITE=$(REPO_DIR=$WT tools/baseline.sh 2>&1 | sed -n 2p)
  BAD=""
  for ID in $(python3 -c "import json;print(' '.join(c['property_id'] for c in json.load(open('MANIFEST.json'))['checks']))"); do
    OUT=$(VERIF_REPO=$WT ./check.sh $ID quick 2>&1); RC=$?
    [ $RC -ne 0 ] && BAD="$BAD $ID(rc=$RC: $(echo "$OUT" | grep 'violations with sig\|^INCONCLUSIVE\|BUILD' | head -2 | tr '\n' ' ' | cut -c1-200))"
  done
  echo "$N: suite [$SUITE] checks: ${BAD:-all 19 silent}"
  git -C /repo worktree remove --force $WT; rm -rf /verif/harness/.build-$(echo $WT | md5sum | cut -c1-8)
done
