#!/bin/bash
# validates MANIFEST.json and every evidence file against the schemas
/opt/veriftools/pyvenv/bin/python - <<'PY'
import json,jsonschema,glob,sys
ok=True
try:
    jsonschema.validate(json.load(open('/verif/MANIFEST.json')),json.load(open('/root/.vp/MANIFEST.schema.json'))); print('MANIFEST ok')
except Exception as e:
    ok=False; print('MANIFEST INVALID',e)
sch=json.load(open('/root/.vp/EVIDENCE.schema.json'))
for f in sorted(glob.glob('/verif/evidence/*.json')):
    try:
        jsonschema.validate(json.load(open(f)),sch); print(f,'ok')
    except Exception as e:
        ok=False; print(f,'INVALID',str(e)[:300])
sys.exit(0 if ok else 1)
PY
